//! vf-driver: rustc_private MIR fact extractor for the flurry static checks.
//!
//! Used as RUSTC_WORKSPACE_WRAPPER under `cargo +nightly check`.  For the crate named in
//! VF_CRATE (default "flurry") it writes one JSON fact file to VF_OUT (single write per
//! process); every other crate is compiled normally.
#![feature(rustc_private)]

extern crate rustc_abi;
extern crate rustc_driver;
extern crate rustc_hir;
extern crate rustc_interface;
extern crate rustc_middle;
extern crate rustc_span;

mod json;

use json::J;
use rustc_driver::Compilation;
use rustc_hir::def::DefKind;
use rustc_hir::def_id::{DefId, LocalDefId};
use rustc_middle::mir::{
    self, AggregateKind, BasicBlock, Body, ConstOperand, Local, Operand, Place, PlaceElem, Rvalue,
    StatementKind, TerminatorKind, UnwindAction,
};
use rustc_middle::ty::print::with_no_trimmed_paths;
use rustc_middle::ty::{self, GenericArgsRef, Instance, Ty, TyCtxt, TypingEnv};
use rustc_span::Span;

struct Cb {
    out: String,
}

impl rustc_driver::Callbacks for Cb {
    fn after_analysis<'tcx>(
        &mut self,
        _compiler: &rustc_interface::interface::Compiler,
        tcx: TyCtxt<'tcx>,
    ) -> Compilation {
        let facts = with_no_trimmed_paths!(extract(tcx));
        let mut s = String::with_capacity(1 << 22);
        facts.write(&mut s);
        std::fs::write(&self.out, s).expect("vf-driver: cannot write fact file");
        Compilation::Continue
    }
}

fn main() {
    let mut args: Vec<String> = std::env::args().collect();
    // RUSTC_WORKSPACE_WRAPPER passes the real rustc path as argv[1]
    if args.len() > 1 && (args[1].ends_with("rustc") || args[1].contains("/rustc")) {
        args.remove(1);
    }
    let want = std::env::var("VF_CRATE").unwrap_or_else(|_| "flurry".to_string());
    let mut crate_name = None;
    let mut is_test = false;
    let mut i = 0;
    while i < args.len() {
        if args[i] == "--crate-name" && i + 1 < args.len() {
            crate_name = Some(args[i + 1].clone());
        }
        if args[i] == "--test" {
            is_test = true;
        }
        i += 1;
    }
    let out = std::env::var("VF_OUT").ok();
    if crate_name.as_deref() == Some(want.as_str()) && !is_test && out.is_some() {
        let mut cb = Cb { out: out.unwrap() };
        rustc_driver::run_compiler(&args, &mut cb);
    } else {
        struct Nop;
        impl rustc_driver::Callbacks for Nop {}
        rustc_driver::run_compiler(&args, &mut Nop);
    }
}

// ---------------------------------------------------------------------------------------------

fn span_str(tcx: TyCtxt<'_>, sp: Span) -> String {
    // innermost user-written location: walk out of macro expansions to the call site
    let sp = sp.source_callsite();
    let sm = tcx.sess.source_map();
    let lo = sm.lookup_char_pos(sp.lo());
    let name = match &lo.file.name {
        rustc_span::FileName::Real(r) => match r.local_path() {
            Some(p) => p.to_string_lossy().to_string(),
            None => format!("{:?}", lo.file.name),
        },
        other => format!("{:?}", other),
    };
    format!("{}:{}:{}", name, lo.line, lo.col.0 + 1)
}

fn macro_chain(sp: Span) -> J {
    let mut v = Vec::new();
    for ed in sp.macro_backtrace() {
        if let rustc_span::ExpnKind::Macro(_, name) = ed.kind {
            v.push(J::s(name.as_str()));
        } else {
            v.push(J::s(&format!("{:?}", ed.kind)));
        }
    }
    J::Arr(v)
}

fn ty_head(tcx: TyCtxt<'_>, t: Ty<'_>) -> String {
    match t.kind() {
        ty::Adt(def, _) => tcx.def_path_str(def.did()),
        ty::Ref(_, inner, m) => format!("&{}{}", if m.is_mut() { "mut " } else { "" }, ty_head(tcx, *inner)),
        ty::RawPtr(inner, m) => format!("*{} {}", if m.is_mut() { "mut" } else { "const" }, ty_head(tcx, *inner)),
        ty::Param(p) => format!("param:{}", p.name),
        ty::Closure(did, _) => format!("closure:{}", tcx.def_path_str(*did)),
        ty::FnDef(did, _) => format!("fndef:{}", tcx.def_path_str(*did)),
        ty::Tuple(ts) if ts.is_empty() => "()".to_string(),
        ty::Tuple(_) => "tuple".to_string(),
        _ => format!("{}", t),
    }
}

fn ty_json<'tcx>(tcx: TyCtxt<'tcx>, t: Ty<'tcx>) -> J {
    let mut o = J::obj();
    o.put("s", J::s(&format!("{}", t)));
    o.put("head", J::s(&ty_head(tcx, t)));
    // head of the pointee chain (peel refs / raw pointers)
    let mut p = t;
    let mut depth = 0;
    loop {
        match p.kind() {
            ty::Ref(_, inner, _) => {
                p = *inner;
                depth += 1;
            }
            ty::RawPtr(inner, _) => {
                p = *inner;
                depth += 1;
            }
            _ => break,
        }
    }
    o.put("base", J::s(&ty_head(tcx, p)));
    o.put("refs", J::Int(depth));
    if let ty::Adt(_, args) = p.kind() {
        o.put("args", J::Arr(args.iter().map(|a| J::s(&format!("{}", a))).collect()));
    }
    o
}

fn field_name<'tcx>(tcx: TyCtxt<'tcx>, base: mir::PlaceTy<'tcx>, f: rustc_abi::FieldIdx) -> (String, String) {
    match base.ty.kind() {
        ty::Adt(def, _) => {
            let vi = base.variant_index.unwrap_or(rustc_abi::FIRST_VARIANT);
            let v = def.variant(vi);
            let name = v.fields.get(f).map(|fd| fd.name.to_string()).unwrap_or_else(|| f.index().to_string());
            (name, tcx.def_path_str(def.did()))
        }
        ty::Closure(did, _) => (format!("upvar{}", f.index()), format!("closure:{}", tcx.def_path_str(*did))),
        ty::Tuple(_) => (f.index().to_string(), "tuple".to_string()),
        _ => (f.index().to_string(), format!("{}", base.ty)),
    }
}

fn place_json<'tcx>(tcx: TyCtxt<'tcx>, body: &Body<'tcx>, p: &Place<'tcx>) -> J {
    let mut o = J::obj();
    o.put("local", J::Int(p.local.as_usize() as i64));
    let mut proj = Vec::new();
    let mut pty = mir::PlaceTy::from_ty(body.local_decls[p.local].ty);
    for elem in p.projection.iter() {
        match elem {
            PlaceElem::Deref => proj.push(J::s("deref")),
            PlaceElem::Field(f, _) => {
                let (name, of) = field_name(tcx, pty, f);
                let mut fo = J::obj();
                fo.put("field", J::Int(f.index() as i64));
                fo.put("name", J::s(&name));
                fo.put("of", J::s(&of));
                proj.push(fo);
            }
            PlaceElem::Downcast(name, vi) => {
                let mut fo = J::obj();
                let n = match name {
                    Some(s) => s.to_string(),
                    None => vi.index().to_string(),
                };
                fo.put("downcast", J::s(&n));
                proj.push(fo);
            }
            PlaceElem::Index(l) => {
                let mut fo = J::obj();
                fo.put("index", J::Int(l.as_usize() as i64));
                proj.push(fo);
            }
            PlaceElem::ConstantIndex { offset, .. } => {
                let mut fo = J::obj();
                fo.put("const_index", J::Int(offset as i64));
                proj.push(fo);
            }
            other => proj.push(J::s(&format!("{:?}", other))),
        }
        pty = pty.projection_ty(tcx, elem);
    }
    o.put("proj", J::Arr(proj));
    o
}

fn const_json<'tcx>(tcx: TyCtxt<'tcx>, env: TypingEnv<'tcx>, c: &ConstOperand<'tcx>) -> J {
    let mut o = J::obj();
    let t = c.const_.ty();
    o.put("const", J::s(&format!("{}", c.const_)));
    o.put("ty", J::s(&format!("{}", t)));
    if let mir::Const::Unevaluated(uv, _) = c.const_ {
        if let Some(p) = uv.promoted {
            o.put("promoted", J::Int(p.as_usize() as i64));
        }
    }
    match t.kind() {
        ty::FnDef(did, args) => {
            o.put("fn", callee_json(tcx, env, *did, args));
        }
        ty::Bool | ty::Int(_) | ty::Uint(_) | ty::Char => {
            if let Some(si) = c.const_.try_eval_scalar_int(tcx, env) {
                let size = si.size();
                let v: i128 = match t.kind() {
                    ty::Int(_) => si.to_int(size),
                    _ => si.to_uint(size) as i128,
                };
                if v >= i64::MIN as i128 && v <= i64::MAX as i128 {
                    o.put("int", J::Int(v as i64));
                } else {
                    o.put("bigint", J::s(&v.to_string()));
                }
            }
        }
        _ => {}
    }
    o
}

fn operand_json<'tcx>(tcx: TyCtxt<'tcx>, env: TypingEnv<'tcx>, body: &Body<'tcx>, op: &Operand<'tcx>) -> J {
    match op {
        Operand::Copy(p) => {
            let mut o = J::obj();
            o.put("copy", place_json(tcx, body, p));
            o
        }
        Operand::Move(p) => {
            let mut o = J::obj();
            o.put("move", place_json(tcx, body, p));
            o
        }
        Operand::Constant(c) => const_json(tcx, env, c),
        #[allow(unreachable_patterns)]
        other => {
            let mut o = J::obj();
            o.put("other_operand", J::s(&format!("{:?}", other)));
            o
        }
    }
}

fn callee_json<'tcx>(tcx: TyCtxt<'tcx>, env: TypingEnv<'tcx>, did: DefId, args: GenericArgsRef<'tcx>) -> J {
    let mut o = J::obj();
    o.put("def", J::s(&tcx.def_path_str(did)));
    o.put("path", J::s(&tcx.def_path_str_with_args(did, args)));
    o.put("crate", J::s(tcx.crate_name(did.krate).as_str()));
    o.put("name", J::s(tcx.item_name(did).as_str()));
    o.put("substs", J::Arr(args.iter().map(|a| J::s(&format!("{}", a))).collect()));
    let mut kind = if did.is_local() { "local" } else { "extern" };
    if let Some(imp) = tcx.impl_of_assoc(did) {
        let st = tcx.type_of(imp).instantiate_identity().skip_norm_wip();
        o.put("impl_self", J::s(&ty_head(tcx, st)));
        if let Some(tr) = tcx.impl_opt_trait_ref(imp) {
            o.put("impl_trait", J::s(&tcx.def_path_str(tr.skip_binder().def_id)));
        }
    }
    if let Some(tr) = tcx.trait_of_assoc(did) {
        o.put("trait", J::s(&tcx.def_path_str(tr)));
        let self_ty = args.type_at(0);
        o.put("self_ty", ty_json(tcx, self_ty));
        // try to resolve to an impl
        let dk = tcx.def_kind(did);
        let mut resolved = false;
        if matches!(dk, DefKind::AssocFn) {
            if let Ok(Some(inst)) = Instance::try_resolve(tcx, env, did, args) {
                let rd = inst.def_id();
                if rd != did {
                    resolved = true;
                    o.put("resolved", J::s(&tcx.def_path_str(rd)));
                    o.put("resolved_crate", J::s(tcx.crate_name(rd.krate).as_str()));
                    o.put("resolved_local", J::Bool(rd.is_local()));
                    if matches!(tcx.def_kind(rd), DefKind::Closure) {
                        kind = "closure";
                    } else {
                        kind = if rd.is_local() { "local" } else { "extern" };
                    }
                    if let ty::InstanceKind::Item(_) = inst.def {
                    } else {
                        o.put("shim", J::s(&format!("{:?}", inst.def)));
                    }
                }
            }
        }
        if !resolved {
            // peel references: `<&F as FnOnce>::call_once` etc.
            let mut p = self_ty;
            while let ty::Ref(_, inner, _) = p.kind() {
                p = *inner;
            }
            match p.kind() {
                ty::Param(_) => kind = "param_trait_method",
                ty::Alias(..) => kind = "param_trait_method",
                ty::Dynamic(..) => kind = "dyn_trait_method",
                ty::Closure(cd, _) => {
                    kind = "closure";
                    o.put("resolved", J::s(&tcx.def_path_str(*cd)));
                    o.put("resolved_local", J::Bool(cd.is_local()));
                }
                _ => {
                    kind = "trait_method_unresolved";
                }
            }
        }
    }
    o.put("kind", J::s(kind));
    o
}

fn unwind_json(u: &UnwindAction) -> J {
    match u {
        UnwindAction::Cleanup(b) => J::Int(b.as_usize() as i64),
        UnwindAction::Continue => J::s("continue"),
        UnwindAction::Unreachable => J::s("unreachable"),
        UnwindAction::Terminate(_) => J::s("terminate"),
    }
}

fn rvalue_json<'tcx>(tcx: TyCtxt<'tcx>, env: TypingEnv<'tcx>, body: &Body<'tcx>, rv: &Rvalue<'tcx>) -> J {
    let mut o = J::obj();
    match rv {
        Rvalue::Use(op, ..) => o.put("use", operand_json(tcx, env, body, op)),
        Rvalue::CopyForDeref(p) => {
            let mut c = J::obj();
            c.put("copy", place_json(tcx, body, p));
            o.put("use", c)
        }
        Rvalue::Ref(_, bk, p) => {
            o.put("ref", place_json(tcx, body, p));
            o.put("mut", J::Bool(matches!(bk, mir::BorrowKind::Mut { .. })));
        }
        Rvalue::RawPtr(k, p) => {
            o.put("rawptr", place_json(tcx, body, p));
            o.put("mut", J::Bool(format!("{:?}", k).contains("Mut")));
        }
        Rvalue::Cast(k, op, t) => {
            o.put("cast", operand_json(tcx, env, body, op));
            o.put("to", J::s(&format!("{}", t)));
            o.put("cast_kind", J::s(&format!("{:?}", k)));
        }
        Rvalue::BinaryOp(op, ab) => {
            o.put("bin", J::s(&format!("{:?}", op)));
            o.put("a", operand_json(tcx, env, body, &ab.0));
            o.put("b", operand_json(tcx, env, body, &ab.1));
        }
        Rvalue::UnaryOp(op, a) => {
            o.put("un", J::s(&format!("{:?}", op)));
            o.put("a", operand_json(tcx, env, body, a));
        }
        Rvalue::Discriminant(p) => o.put("discr", place_json(tcx, body, p)),
        Rvalue::Aggregate(kind, ops) => {
            let mut a = J::obj();
            match &**kind {
                AggregateKind::Adt(did, vi, args, _, _) => {
                    let def = tcx.adt_def(*did);
                    a.put("adt", J::s(&tcx.def_path_str(*did)));
                    a.put("variant", J::s(def.variant(*vi).name.as_str()));
                    a.put("fields", J::Arr(def.variant(*vi).fields.iter().map(|f| J::s(f.name.as_str())).collect()));
                    a.put("args", J::Arr(args.iter().map(|x| J::s(&format!("{}", x))).collect()));
                }
                AggregateKind::Closure(did, _) => a.put("closure", J::s(&tcx.def_path_str(*did))),
                AggregateKind::Tuple => a.put("tuple", J::Bool(true)),
                AggregateKind::Array(_) => a.put("array", J::Bool(true)),
                other => a.put("other", J::s(&format!("{:?}", other))),
            }
            o.put("agg", a);
            o.put("ops", J::Arr(ops.iter().map(|x| operand_json(tcx, env, body, x)).collect()));
        }
        other => o.put("other", J::s(&format!("{:?}", other))),
    }
    o
}

fn body_json<'tcx>(tcx: TyCtxt<'tcx>, did: LocalDefId) -> Option<J> {
    let dk = tcx.def_kind(did);
    if !matches!(dk, DefKind::Fn | DefKind::AssocFn | DefKind::Closure) {
        return None;
    }
    let def_id = did.to_def_id();
    let body: &Body<'tcx> = tcx.optimized_mir(def_id);
    let env = TypingEnv::post_analysis(tcx, def_id);
    let mut o = J::obj();
    o.put("id", J::s(&tcx.def_path_str(def_id)));
    o.put("kind", J::s(&format!("{:?}", dk)));
    o.put("span", J::s(&span_str(tcx, tcx.def_span(def_id))));
    o.put("args", J::Int(body.arg_count as i64));
    if matches!(dk, DefKind::Fn | DefKind::AssocFn) {
        o.put("name", J::s(tcx.item_name(def_id).as_str()));
        o.put("vis", J::s(&format!("{:?}", tcx.visibility(def_id))));
        let ev = tcx.effective_visibilities(());
        o.put("exported", J::Bool(ev.is_exported(did)));
        o.put("reachable", J::Bool(ev.is_reachable(did)));
        let sig = tcx.fn_sig(def_id).instantiate_identity().skip_norm_wip();
        o.put("sig", J::s(&format!("{}", sig)));
        o.put("unsafe", J::Bool(!sig.safety().is_safe()));
        let preds = tcx.predicates_of(def_id).instantiate_identity(tcx);
        o.put(
            "predicates",
            J::Arr(preds.predicates.iter().map(|p| J::s(&format!("{}", p.as_ref().skip_norm_wip()))).collect()),
        );
        let gens = tcx.generics_of(def_id);
        o.put("generics", J::Arr(gens.own_params.iter().map(|p| J::s(p.name.as_str())).collect()));
        if let Some(imp) = tcx.impl_of_assoc(def_id) {
            let mut io = J::obj();
            let st = tcx.type_of(imp).instantiate_identity().skip_norm_wip();
            io.put("self", J::s(&format!("{}", st)));
            io.put("self_head", J::s(&ty_head(tcx, st)));
            if let Some(tr) = tcx.impl_opt_trait_ref(imp) {
                let tr = tr.instantiate_identity().skip_norm_wip();
                io.put("trait", J::s(&tcx.def_path_str(tr.def_id)));
                io.put("trait_ref", J::s(&format!("{}", tr)));
            }
            io.put("span", J::s(&span_str(tcx, tcx.def_span(imp))));
            o.put("impl", io);
        }
    } else {
        o.put("parent", J::s(&tcx.def_path_str(tcx.parent(def_id))));
        // names of captured variables, in upvar order
        let caps: Vec<J> = tcx
            .closure_captures(did)
            .iter()
            .map(|c| J::s(&c.to_string(tcx)))
            .collect();
        o.put("upvars", J::Arr(caps));
    }
    // locals
    let mut names: Vec<Option<String>> = vec![None; body.local_decls.len()];
    let mut upvar_debug: Vec<J> = Vec::new();
    for vdi in &body.var_debug_info {
        if let mir::VarDebugInfoContents::Place(p) = &vdi.value {
            if p.projection.is_empty() {
                names[p.local.as_usize()] = Some(vdi.name.to_string());
            } else {
                let mut d = J::obj();
                d.put("name", J::s(vdi.name.as_str()));
                d.put("place", place_json(tcx, body, p));
                upvar_debug.push(d);
            }
        }
    }
    o.put("debug_places", J::Arr(upvar_debug));
    let mut locals = Vec::new();
    for (l, decl) in body.local_decls.iter_enumerated() {
        let mut lo = ty_json(tcx, decl.ty);
        if let Some(n) = &names[l.as_usize()] {
            lo.put("name", J::s(n));
        }
        locals.push(lo);
    }
    o.put("locals", J::Arr(locals));
    // blocks
    let mut blocks = Vec::new();
    for (_bb, data) in body.basic_blocks.iter_enumerated() {
        let mut bo = J::obj();
        bo.put("cleanup", J::Bool(data.is_cleanup));
        let mut stmts = Vec::new();
        for st in &data.statements {
            match &st.kind {
                StatementKind::Assign(b) => {
                    let (p, rv) = &**b;
                    let mut so = J::obj();
                    so.put("k", J::s("assign"));
                    so.put("dst", place_json(tcx, body, p));
                    so.put("rv", rvalue_json(tcx, env, body, rv));
                    so.put("span", J::s(&span_str(tcx, st.source_info.span)));
                    stmts.push(so);
                }
                StatementKind::StorageDead(l) => {
                    let mut so = J::obj();
                    so.put("k", J::s("storage_dead"));
                    so.put("local", J::Int(l.as_usize() as i64));
                    stmts.push(so);
                }
                StatementKind::StorageLive(l) => {
                    let mut so = J::obj();
                    so.put("k", J::s("storage_live"));
                    so.put("local", J::Int(l.as_usize() as i64));
                    stmts.push(so);
                }
                StatementKind::SetDiscriminant { place, variant_index } => {
                    let mut so = J::obj();
                    so.put("k", J::s("set_discr"));
                    so.put("dst", place_json(tcx, body, place));
                    so.put("variant", J::Int(variant_index.as_usize() as i64));
                    stmts.push(so);
                }
                _ => {}
            }
        }
        bo.put("stmts", J::Arr(stmts));
        let term = data.terminator();
        let mut to = J::obj();
        to.put("span", J::s(&span_str(tcx, term.source_info.span)));
        let mc = macro_chain(term.source_info.span);
        if let J::Arr(v) = &mc {
            if !v.is_empty() {
                to.put("macro", mc);
            }
        }
        match &term.kind {
            TerminatorKind::Goto { target } => {
                to.put("k", J::s("goto"));
                to.put("target", J::Int(target.as_usize() as i64));
            }
            TerminatorKind::SwitchInt { discr, targets } => {
                to.put("k", J::s("switch"));
                to.put("on", operand_json(tcx, env, body, discr));
                let mut ts = Vec::new();
                for (v, b) in targets.iter() {
                    ts.push(J::Arr(vec![J::s(&v.to_string()), J::Int(b.as_usize() as i64)]));
                }
                to.put("targets", J::Arr(ts));
                to.put("otherwise", J::Int(targets.otherwise().as_usize() as i64));
            }
            TerminatorKind::UnwindResume => to.put("k", J::s("resume")),
            TerminatorKind::UnwindTerminate(_) => to.put("k", J::s("terminate")),
            TerminatorKind::Return => to.put("k", J::s("return")),
            TerminatorKind::Unreachable => to.put("k", J::s("unreachable")),
            TerminatorKind::Drop { place, target, unwind, .. } => {
                to.put("k", J::s("drop"));
                to.put("place", place_json(tcx, body, place));
                let pt = place.ty(body, tcx).ty;
                to.put("ty", ty_json(tcx, pt));
                to.put("target", J::Int(target.as_usize() as i64));
                to.put("unwind", unwind_json(unwind));
            }
            TerminatorKind::Call { func, args, destination, target, unwind, fn_span, .. } => {
                to.put("k", J::s("call"));
                match func {
                    Operand::Constant(c) => {
                        if let ty::FnDef(fd, fargs) = c.const_.ty().kind() {
                            to.put("callee", callee_json(tcx, env, *fd, fargs));
                        } else {
                            to.put("callee_op", const_json(tcx, env, c));
                        }
                    }
                    other => to.put("callee_op", operand_json(tcx, env, body, other)),
                }
                to.put("args", J::Arr(args.iter().map(|a| operand_json(tcx, env, body, &a.node)).collect()));
                to.put("dst", place_json(tcx, body, destination));
                match target {
                    Some(t) => to.put("target", J::Int(t.as_usize() as i64)),
                    None => to.put("target", J::Null),
                }
                to.put("unwind", unwind_json(unwind));
                to.put("fn_span", J::s(&span_str(tcx, *fn_span)));
            }
            TerminatorKind::Assert { cond, expected, msg, target, unwind } => {
                to.put("k", J::s("assert"));
                to.put("cond", operand_json(tcx, env, body, cond));
                to.put("expected", J::Bool(*expected));
                to.put("msg", J::s(&format!("{:?}", msg)));
                to.put("target", J::Int(target.as_usize() as i64));
                to.put("unwind", unwind_json(unwind));
            }
            other => {
                to.put("k", J::s("other"));
                to.put("dbg", J::s(&format!("{:?}", other)));
                let succ: Vec<J> = term.successors().map(|b: BasicBlock| J::Int(b.as_usize() as i64)).collect();
                to.put("succ", J::Arr(succ));
            }
        }
        bo.put("term", to);
        blocks.push(bo);
    }
    o.put("blocks", J::Arr(blocks));
    // promoted constants: value when the promoted body just materialises one scalar
    let mut proms = Vec::new();
    for (pi, pb) in tcx.promoted_mir(def_id).iter_enumerated() {
        let mut po = J::obj();
        po.put("idx", J::Int(pi.as_usize() as i64));
        let mut vals = Vec::new();
        for data in pb.basic_blocks.iter() {
            for st in &data.statements {
                if let StatementKind::Assign(b) = &st.kind {
                    if let Rvalue::Use(Operand::Constant(c), ..) = &b.1 {
                        vals.push(const_json(tcx, env, c));
                    }
                }
            }
        }
        po.put("consts", J::Arr(vals));
        proms.push(po);
    }
    o.put("promoted", J::Arr(proms));
    let _ = Local::from_usize(0);
    Some(o)
}

fn extract<'tcx>(tcx: TyCtxt<'tcx>) -> J {
    let mut root = J::obj();
    root.put("crate", J::s(tcx.crate_name(rustc_hir::def_id::LOCAL_CRATE).as_str()));
    root.put("rustc", J::s(&format!("{}", rustc_interface::util::rustc_version_str().unwrap_or("?"))));
    let feats: Vec<J> = tcx
        .sess
        .config
        .iter()
        .filter_map(|(k, v)| {
            if k.as_str() == "feature" {
                v.map(|v| J::s(v.as_str()))
            } else {
                None
            }
        })
        .collect();
    root.put("features", J::Arr(feats));

    // bodies
    let mut bodies = Vec::new();
    for did in tcx.hir_body_owners() {
        if let Some(b) = body_json(tcx, did) {
            bodies.push(b);
        }
    }
    root.put("bodies", J::Arr(bodies));

    // crate tables
    let mut adts = J::obj();
    let mut consts = J::obj();
    let mut impls = Vec::new();
    let mut fns = Vec::new();
    for did in tcx.hir_crate_items(()).definitions() {
        let def_id = did.to_def_id();
        match tcx.def_kind(did) {
            DefKind::Struct | DefKind::Enum => {
                let def = tcx.adt_def(def_id);
                let mut a = J::obj();
                a.put("kind", J::s(if def.is_enum() { "enum" } else { "struct" }));
                let mut vs = Vec::new();
                for v in def.variants() {
                    let mut vo = J::obj();
                    vo.put("name", J::s(v.name.as_str()));
                    let mut fs = Vec::new();
                    for f in v.fields.iter() {
                        let ft = tcx.type_of(f.did).instantiate_identity().skip_norm_wip();
                        fs.push(J::Arr(vec![J::s(f.name.as_str()), J::s(&format!("{}", ft))]));
                    }
                    vo.put("fields", J::Arr(fs));
                    vs.push(vo);
                }
                a.put("variants", J::Arr(vs));
                a.put("span", J::s(&span_str(tcx, tcx.def_span(def_id))));
                adts.put(&tcx.def_path_str(def_id), a);
            }
            DefKind::Const { .. } | DefKind::AssocConst { .. } => {
                let t = tcx.type_of(def_id).instantiate_identity().skip_norm_wip();
                let mut c = J::obj();
                c.put("ty", J::s(&format!("{}", t)));
                if matches!(t.kind(), ty::Int(_) | ty::Uint(_) | ty::Bool) {
                    // associated constants of generic impls too: evaluation fails (TooGeneric) only when the value depends on a parameter
                    if let Ok(val) = tcx.const_eval_poly(def_id) {
                        if let Some(si) = val.try_to_scalar_int() {
                            let size = si.size();
                            let v: i128 = match t.kind() {
                                ty::Int(_) => si.to_int(size),
                                _ => si.to_uint(size) as i128,
                            };
                            if v >= i64::MIN as i128 && v <= i64::MAX as i128 {
                                c.put("value", J::Int(v as i64));
                            } else {
                                c.put("bigvalue", J::s(&v.to_string()));
                            }
                        }
                    }
                }
                c.put("span", J::s(&span_str(tcx, tcx.def_span(def_id))));
                consts.put(&tcx.def_path_str(def_id), c);
            }
            DefKind::Impl { of_trait } => {
                let mut io = J::obj();
                let st = tcx.type_of(def_id).instantiate_identity().skip_norm_wip();
                io.put("self", J::s(&format!("{}", st)));
                io.put("self_head", J::s(&ty_head(tcx, st)));
                if of_trait {
                    let hdr = tcx.impl_trait_header(def_id);
                    let tr = hdr.trait_ref.instantiate_identity().skip_norm_wip();
                    io.put("trait", J::s(&tcx.def_path_str(tr.def_id)));
                    io.put("trait_ref", J::s(&format!("{}", tr)));
                    io.put("unsafe", J::Bool(!hdr.safety.is_safe()));
                    io.put("polarity", J::s(&format!("{:?}", hdr.polarity)));
                }
                let preds = tcx.predicates_of(def_id).instantiate_identity(tcx);
                io.put(
                    "predicates",
                    J::Arr(preds.predicates.iter().map(|p| J::s(&format!("{}", p.as_ref().skip_norm_wip()))).collect()),
                );
                io.put("span", J::s(&span_str(tcx, tcx.def_span(def_id))));
                let items: Vec<J> = tcx
                    .associated_items(def_id)
                    .in_definition_order()
                    .map(|it| J::s(&tcx.def_path_str(it.def_id)))
                    .collect();
                io.put("items", J::Arr(items));
                impls.push(io);
            }
            DefKind::Fn | DefKind::AssocFn => {
                fns.push(J::s(&tcx.def_path_str(def_id)));
            }
            _ => {}
        }
    }
    root.put("adts", adts);
    root.put("consts", consts);
    root.put("impls", J::Arr(impls));
    root.put("fns", J::Arr(fns));
    root
}
