//! Minimal JSON value + writer (no dependencies).
pub enum J {
    Null,
    Bool(bool),
    Int(i64),
    Str(String),
    Arr(Vec<J>),
    Obj(Vec<(String, J)>),
}

impl J {
    pub fn s(x: &str) -> J {
        J::Str(x.to_string())
    }
    pub fn obj() -> J {
        J::Obj(Vec::new())
    }
    pub fn put(&mut self, k: &str, v: J) {
        if let J::Obj(m) = self {
            m.push((k.to_string(), v));
        }
    }
    pub fn write(&self, out: &mut String) {
        match self {
            J::Null => out.push_str("null"),
            J::Bool(b) => out.push_str(if *b { "true" } else { "false" }),
            J::Int(i) => out.push_str(&i.to_string()),
            J::Str(s) => esc(s, out),
            J::Arr(v) => {
                out.push('[');
                for (i, x) in v.iter().enumerate() {
                    if i > 0 {
                        out.push(',');
                    }
                    x.write(out);
                }
                out.push(']');
            }
            J::Obj(m) => {
                out.push('{');
                for (i, (k, x)) in m.iter().enumerate() {
                    if i > 0 {
                        out.push(',');
                    }
                    esc(k, out);
                    out.push(':');
                    x.write(out);
                }
                out.push('}');
            }
        }
    }
}

fn esc(s: &str, out: &mut String) {
    out.push('"');
    for c in s.chars() {
        match c {
            '"' => out.push_str("\\\""),
            '\\' => out.push_str("\\\\"),
            '\n' => out.push_str("\\n"),
            '\r' => out.push_str("\\r"),
            '\t' => out.push_str("\\t"),
            c if (c as u32) < 0x20 => out.push_str(&format!("\\u{:04x}", c as u32)),
            c => out.push(c),
        }
    }
    out.push('"');
}
