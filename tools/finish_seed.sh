#!/bin/bash
# usage: finish_seed.sh <Cxx> <letter> <expect-rule> "<needs>" "<caught_by>"  -- writes seeded/<Cxx-letter>/meta.json and removes the scratch worktree
P=$1; L=$2; D=/verif/seeded/$P-$L
python3 - "$P" "$3" "$4" "$5" > $D/meta.json <<'PY'
import json, sys
print(json.dumps({"property": sys.argv[1], "expect_rule": sys.argv[2], "needs": sys.argv[3], "caught_by": sys.argv[4],
 "source": "independent sub-agent given only the property text, a scratch worktree and a list of mechanisms already taken",
 "confirmed": "tools/seed_eval.sh: demo passes without the change, fails with it; existing suite passes with it; cargo check --features serde,rayon ok"}, indent=1))
PY
git -C /repo worktree remove --force /tmp/wt-$P$L 2>/dev/null; rm -rf /tmp/wt-$P$L
ls $D
