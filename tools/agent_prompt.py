import sys, json
pid=sys.argv[1]
p=[json.loads(l) for l in open('/verif/properties.jsonl') if json.loads(l)['id']==pid][0]
n = sys.argv[2] if len(sys.argv)>2 else ""
wt = "/tmp/wt-%s%s" % (pid, n)
extra = sys.argv[3] if len(sys.argv)>3 else ""
print(f"""You are helping test a verification effort for the Rust crate jonhoo/flurry (a port of Java's ConcurrentHashMap). Your job: craft ONE realistic, subtle source change ("seeded bug") that BREAKS the semantic property below while the crate still compiles and its existing test suite still passes, plus a demonstration that fails with your change and passes without it.

Work ONLY inside the scratch git worktree `{wt}` (a checkout of the repository). Do NOT read, list or use anything under /verif, and do not touch /repo itself. Do not use the network (there is none).

THE PROPERTY ({pid}: {p['title']}):
{p['statement']}

Quantifier: {p['quantifier']['text']}
Why tests can't settle it: {p['why_tests_cant']}
Code anchors (mechanisms meant to make it hold):
{json.dumps(p['anchors']['mechanism'], indent=1)}

REQUIREMENTS for the change:
1. It must be a change to the library source under `{wt}/src/` (not to tests), small and realistic -- the kind of mistake a maintainer could make in a refactor or "optimisation" (wrong ordering of two steps, a dropped re-check, a weakened condition, a wrong constant/sign/ordering, a missed case in one of several sibling code paths, two sites that each look fine alone ...). Prefer changes that need something SPECIFIC to manifest: a particular interleaving, a panic/fault at a particular point, a multi-step sequence of operations, an unusual input (colliding hashes, tree bins, resize in flight), or two cooperating sites. Do NOT pick something ordinary use would expose at once. {extra}
2. With the change applied the crate must still compile (`cargo build --offline` and also `cargo check --offline --features serde,rayon`) and the EXISTING tests must still pass: run `cd {wt} && cargo test --offline 2>&1 | tail -30` (takes ~1-2 min; the suite has concurrency stress tests, run it twice if you changed concurrent code). If existing tests fail, pick a different/subtler change.
3. Write a demonstration: a new integration test file `{wt}/tests/seeded_demo.rs` (or a small program) that FAILS (assertion failure, panic, hang detected by a timeout you implement, Miri error, etc.) WITH the change and PASSES WITHOUT it. For schedule-dependent bugs it is fine if the demo needs many iterations/threads or deliberately constructed hash collisions (e.g. a custom BuildHasher that returns constant hashes) to hit the bug with high probability; say how reliable it is. If a deterministic demo is truly impossible, give the best probabilistic one plus a precise written interleaving/scenario. `cargo +nightly miri test` is available offline if you need it (slow).
4. Verify BOTH directions yourself: demo fails with the change; revert the src change (save it first with `git diff -- src > /tmp/my-change-{pid}.patch`, then `git checkout -- src`; do NOT use `git stash`, the stash is shared between worktrees) and the demo passes; re-apply the change with `git apply`.

DELIVERABLES (write these files, then finish):
- `{wt}/SEED/patch.diff`  : output of `git -C {wt} diff -- src/` (ONLY the library change, not the demo).
- `{wt}/SEED/demo.rs`     : copy of your demonstration test file.
- `{wt}/SEED/README.md`   : (a) which clause of the property the change breaks and why, (b) what it needs in order to manifest, (c) exact commands you ran and their outcome in both directions (with/without the change), (d) confirmation that the existing tests passed with the change (paste the summary lines).
Leave the change applied in the worktree when you finish. Keep your final answer short: one paragraph describing the change and where the deliverables are.""")
