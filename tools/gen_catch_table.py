#!/usr/bin/env python3
"""prints the markdown table 'which check catches which change' from mutants/*.patch headers and seeded/*/meta.json"""
import glob, json, os, re
V=os.path.dirname(os.path.dirname(os.path.abspath(__file__)))
rows=[]
for p in sorted(glob.glob(V+'/mutants/*.patch')):
    m={}
    for line in open(p):
        if not line.startswith('# '): break
        k,_,v=line[2:].partition(':'); m[k.strip()]=v.strip()
    rows.append((m.get('property'), os.path.basename(p)[:-6], m.get('kind'), m.get('expect'), m.get('what','')))
print('| property | mutant (mutants/*.patch) | kind | caught by | what it does |')
print('|---|---|---|---|---|')
for r in sorted(rows):
    print('| %s | %s | %s | %s | %s |' % (r[0], r[1], r[2], r[3] if r[2]=='positive' else '(must stay silent)', r[4].replace('|','/')))
print()
print('| property | seeded change (seeded/<id>/) | caught by | needs, in order to manifest |')
print('|---|---|---|---|')
for d in sorted(glob.glob(V+'/seeded/*/meta.json')):
    m=json.load(open(d))
    print('| %s | %s | %s | %s |' % (m['property'], os.path.basename(os.path.dirname(d)), m.get('caught_by', m.get('expect_rule')), m.get('needs','').replace('|','/')))
