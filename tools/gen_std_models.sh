#!/bin/bash
# regenerates vf/std_models.json: MIR facts of the reference implementations in /verif/stdmodels (closure-taking std combinators)
cd /verif && python3 -B - <<'PY'
import json, os, subprocess, tempfile, shutil, sys
sys.path.insert(0, '/verif')
from vf import extract as X
w = tempfile.mkdtemp()
out = os.path.join(w, "m.json")
env = X.nightly_env({"RUSTFLAGS": "-Zmir-opt-level=0 --cap-lints allow", "RUSTC_WORKSPACE_WRAPPER": X.DRIVER, "VF_OUT": out,
                     "VF_CRATE": "stdmodels", "CARGO_TARGET_DIR": os.path.join(w, "t")})
p = subprocess.run(["cargo", "+nightly", "check", "--offline", "--lib", "--manifest-path", "/verif/stdmodels/Cargo.toml"], env=env,
                   stdout=subprocess.PIPE, stderr=subprocess.STDOUT, text=True)
assert p.returncode == 0 and os.path.exists(out), p.stdout[-2000:]
d = json.load(open(out))
TYPES = {"Option": "std::option::Option::<T>", "Result": "std::result::Result::<T, E>", "bool": "core::bool::<impl bool>"}
models = {}
for b in d["bodies"]:
    if b["kind"] == "Closure" or "__" not in b["name"]:
        continue
    ty, m = b["name"].split("__", 1)
    models["%s::%s" % (TYPES[ty], m)] = b
json.dump(models, open("/verif/vf/std_models.json", "w"))
print(sorted(models))
shutil.rmtree(w, ignore_errors=True)
PY
