#!/bin/bash
# usage: seed_eval.sh <worktree> <property> <seed-name>
# confirms a sub-agent's seeded change (demo fails with / passes without; existing suite passes with) and runs the checks against it
WT=$1; PROP=$2; NAME=$3
D=/verif/seeded/$NAME
mkdir -p $D
cp $WT/SEED/patch.diff $D/patch.diff; cp $WT/SEED/demo.rs $D/demo.rs 2>/dev/null; cp $WT/SEED/README.md $D/agent_README.md 2>/dev/null
cd $WT
git checkout -q -- src
git apply --check $D/patch.diff || { echo "PATCH DOES NOT APPLY"; exit 2; }
mkdir -p tests; cp $D/demo.rs tests/seeded_demo.rs
echo "--- demo WITHOUT the change"
timeout 900 cargo test --offline --test seeded_demo 2>&1 | grep -E "^test result|^test .*(FAILED|ok)$|error(\[|:)" | head -12
git apply $D/patch.diff
echo "--- demo WITH the change"
timeout 900 cargo test --offline --test seeded_demo 2>&1 | grep -E "^test result|^test .*(FAILED|ok)$|error(\[|:)|panicked" | head -12
echo "--- existing suite WITH the change (demo moved aside)"
mv tests/seeded_demo.rs /tmp/seeded_demo_$NAME.rs
timeout 1500 cargo test --offline 2>&1 | grep -E "^test result|FAILED|error(\[|:)" | sort | uniq -c | head -12
cargo check --offline --features serde,rayon 2>&1 | tail -1
mv /tmp/seeded_demo_$NAME.rs tests/seeded_demo.rs
echo "--- checks against the changed tree"
cd /verif; export VF_EVIDENCE_DIR=/tmp/seed-evidence
for p in $PROP; do ./vf.sh check $p --repo $WT 2>&1 | grep -E "^VIOLATION|^  [A-Z][0-9]+[a-z]? .*: |INCONCLUSIVE|tier=" | cut -c1-400 | head -8; done
