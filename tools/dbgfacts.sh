#!/bin/bash
# usage: dbgfacts.sh <repo dir> <out.json>  -- extract the fact file (serde,rayon) of a tree for interactive inspection
cd /verif && python3 -B - "$1" "$2" <<'PY'
import sys, shutil
from vf import extract as X
w = X.workdir()
f, _ = X.extract(sys.argv[1], ["serde", "rayon"], w, tag="facts-dbg")
shutil.copy(f, sys.argv[2]); shutil.rmtree(w, ignore_errors=True)
print(sys.argv[2])
PY
