#!/bin/bash
# usage: trymut.sh <mutant-name> <prop> [more props]  -- apply mutants/<name>.patch to a scratch copy and run the checks, printing violations
n=$1; shift
W=/tmp/trymut-$n
rm -rf $W; mkdir -p $W; rsync -a --exclude target --exclude .git /repo/ $W/
P=/verif/mutants/$n.patch; [ -f $P ] || P=/tmp/pending-neg/$n.patch
( cd $W && patch -p1 -s < <(grep -v '^# ' $P) ) || { echo "patch failed"; exit 2; }
export VF_EVIDENCE_DIR=/tmp/seed-evidence
for p in "$@"; do /verif/vf.sh check $p --repo $W 2>&1 | grep -E -A1 "^VIOLATION|INCONCLUSIVE" | grep -v "^--" | cut -c1-600; done
[ -n "$KEEP" ] || rm -rf $W
