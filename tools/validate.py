#!/usr/bin/env python3-vt
import json, sys, glob
import jsonschema
m=json.load(open('/verif/MANIFEST.json'))
jsonschema.validate(m, json.load(open('/root/.vp/MANIFEST.schema.json')))
print('manifest ok')
es=json.load(open('/root/.vp/EVIDENCE.schema.json'))
for f in sorted(glob.glob('/verif/evidence/C*.json')):
    jsonschema.validate(json.load(open(f)), es); print('evidence ok', f)
