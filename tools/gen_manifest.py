#!/usr/bin/env python3
"""Regenerates /verif/MANIFEST.json from the table below (kept in one place so it is always valid)."""
import json
import os
import sys

VERIF = os.path.dirname(os.path.dirname(os.path.abspath(__file__)))

TRUST = ("Trusted: rustc nightly 1.97 (MIR construction, Instance::try_resolve, borrow checker, trait solver), the documented "
         "behaviour of seize 0.3.3 and parking_lot, and the /verif driver + rule engine (validated by seeded mutants and canaries).")

# id -> (category, technique, claim text, design ref, note)
CLAIMS = {
    "C09": ("other", "MIR dominance + interprocedural summary fixpoint (who-may-use-the-guard rule)",
            "Whole property, statically: every exported function with a &Guard parameter (and every struct that can wrap an "
            "unchecked guard) uses the guard only after, or through, a collector-identity check that panics on mismatch; the check "
            "function itself is validated by shape. Quantifies over all public entry points and all their CFG paths.",
            "DESIGN.md §4 C09", TRUST),
}

CLAIMS["C12"] = ("other", "call-graph effect analysis + loop progress-witness rule over MIR",
    "Whole structural content: from every read entry point (get/get_key_value/contains/iter*/next/len/is_empty/eq/set relations/Index/"
    "Debug/Serialize on all four facades and the iterator types) no lock, park, yield, sleep, spin or Once primitive, no retire/free and "
    "no shared write except the reader-count RMWs on the tree-bin lock word is reachable through flurry's resolved call graph; every cycle "
    "of every loop on such a path has a progress witness, so a read cannot wait for another thread. Not decided: a numeric step bound.",
    "DESIGN.md §4 C12", TRUST + " seize enter/protect/Drop for Guard, the global allocator and user code (Hash/Ord/Eq/closures) are outside the property.")

CLAIMS["C03"] = ("other", "interprocedural taint (unprotected guards) + must-pass-through ordering (unlink before retire) over MIR",
    "Clauses, not the whole behaviour: (M1) no Guard::unprotected() value can reach, through any call chain, a retire that is followed by a "
    "touch of the retired object or its lock (this is what makes collect/FromIterator safe); (M2) at each of the 25 retire sites an unlink "
    "write on the object's own container precedes the retire on every value-flow path; (M3) immediate frees only on private/exclusively "
    "owned objects; (M4) copy-loop/retire-loop agreement; (M6) the forwarding marker is handed out only after next_table is set. Each is a necessary condition: breaking one yields a concrete use-after-free. "
    "A tree bin retired whole does not also have its nodes' values retired one by one (M9); a removed or replaced value is retired exactly once (M10 = O4). Not decided: that references stay *unchanged*, the collector's own correctness, value-level aliasing beyond copies. Links of nodes private to the body do not count as unlinks (M2). Every exported guard-taking function checks the guard's collector before use, so nothing is retired into a foreign collector (M11 = G1-G3).",
    "DESIGN.md §4 C03", TRUST)

CLAIMS["C07"] = ("other", "null-check contradiction rule (value-chain path search) + private-target rule over MIR",
    "Clauses only: (T1) every value loaded from a nullable link of the structure is null-tested on every path before it is dereferenced "
    "(so an iterator or reader cannot fault on a transiently empty tree bin or list end); (T2) resize, treeify and untreeify never write a "
    "link of a node that other threads can reach, so an iterator standing inside an old bin list sees it intact; (T3) the traverser's index "
    "arithmetic and its save/restore frames (every pushed frame has table, index and length set); (T4) traversals start on the current table; "
    "(T5) a non-null successor, the first node of a tree bin and the head of a list bin are always yielded, whatever kind of entry they are; "
    "(T6) the links of a node being removed are not written. All are necessary for weak "
    "consistency. Not decided: termination and exactly-once yield across nested resizes (index arithmetic over run-time table lengths), and "
    "'never yields a pair that was not in the map'. The tallies of transfer's splitting walk count the nodes, so no node is both kept in a re-used bin and copied (T7 = O11).",
    "DESIGN.md §4 C07", TRUST + " Four reviewed T1 exceptions are frozen by (function, field) with their invariant in vf/rules_c07.py.")

CLAIMS["C14"] = ("other", "affine abstract interpretation over MIR + who-may-call / dominance rules",
    "Clauses of the capacity contract decided from the code's shape: the counter value compared with the threshold equals what the atomic "
    "RMW left in memory (so removals never look like growth); capacity rounding is min(2^30, next_pow2(1.5c+1)) in both presize paths and "
    "every published threshold is exactly L - floor(L/4) of the new length L (tables of 1 and 2 bins included); resizes are initiated only by add_count (behind the hint test and count >= "
    "threshold) and try_presize (reserve, or an overfull bin in a table shorter than 64); initiation is guarded by len < 2^30; the table "
    "pointer is only ever replaced by a fresh or doubled table; the constants are as stated; capacity 0 allocates nothing; reserve(additional) presizes for len() + additional; "
    "treeify_bin (which doubles a small table) is called only by an inserting operation; add_count leaves its resize loop only with count < size_ctl or for a reason "
    "independent of the count and of the resize hint (so no insert returns with the count at or above the threshold for a removal to act on). The bin length put reports is the number of nodes walked (K11). Not decided: "
    "'holds c well-distributed entries' (hash distribution) and power-of-two lengths (Q3, under C05). The count compared with the threshold is adjusted exactly once per link / unlink (K12 = Q1). Every add_count with a positive delta passes Some(hint) (K13 = Z17).",
    "DESIGN.md §4 C14", TRUST + " x >> k is modelled as x/2^k (exact for the power-of-two lengths it is applied to).")

CLAIMS["C19"] = ("other", "panic-site reachability + delegation (who-may-call) rules over MIR, features serde,rayon",
    "Clauses: (V1) in the serde visitors no panic-family call is reachable after input has been pulled from the deserialiser, so a "
    "repeated key or element yields a value, not a panic; (V2) the visitors build the collection through exported, guard-checked functions "
    "with the new collection's own guard; (V3) the rayon impls only delegate to exported functions and sibling impls, with a per-worker guard "
    "of the same map; (V4) every entry pulled from the deserialiser reaches an insert before the next pull or the return; (V5) no filtering, deduplicating, truncating or searching operation stands between the input and the insert in the rayon and serde entry points; (V6) a visitor inserts only into a collection it created itself, or clears the one it was handed first. Not decided: serialise/deserialise round-trip equality and 'same key set as sequential insertion' (run-time values). Short-circuiting consumers (any, all, try_*) count as item-dropping operations (V5).",
    "DESIGN.md §4 C19", TRUST + " serde/rayon adaptor internals are outside the analysis.")

CLAIMS["C01"] = ("other", "MIR path rules: lock-region dataflow, edge dominance, must-pass-through, delegation rule",
    "Clauses only; linearizability of histories itself is NOT decided (no static argument in reach bounds histories). Decided on every CFG "
    "path of every writer: lock -> re-validate head by pointer identity -> only then mutate (11 lock regions, incl. no stale link reads "
    "carried into a section); bin contents written only under the bin lock, on private nodes, by the empty-bin CAS or in teardown (tree "
    "helpers lifted to call sites); both new bins published before the forwarding marker; writers that meet a forwarding marker retry in a "
    "current table; set and pinned-reference facades are single delegations with guards paired to their collections; readers descend a tree bin only under the read lock and the write lock is taken only from a lock word without readers; a node's value is touched / a node reported found only after its key compared equal; a bin is read at the index computed for that very table. Each clause is a "
    "necessary condition of the property: a tree violating it admits a concrete lost/duplicated/misattributed update. A new tree-bin entry is published in the bin's list before it is linked into the tree (L13). A writer whose head re-validation fails goes back to its retry loop instead of returning (L14).",
    "DESIGN.md §4 C01", TRUST + " Lock regions are intraprocedural (guard locals); a lock handed across calls would be INCONCLUSIVE.")
CLAIMS["C08"] = ("other", "MIR region rules (callback, read and write inside one validated lock region) + signature predicate",
    "The lock-based atomicity argument of compute_if_present, on both arms and every path: callback only after head re-validation inside "
    "the bin-lock region; the value it receives is loaded inside that region; the write applying its result happens before the guard is "
    "dropped, for Some and for None; FnOnce bound on every facade; every writer of a bin (not only compute_if_present) re-validates under the lock and carries nothing read before it into the section. Together with C01-L1/L2 (all other writers of the bin take the same "
    "lock) nothing can take effect on the key between the read and the write. Not decided: concrete racing histories. compute_if_present retries when the bin it locked is no longer the head (A7 = L14).",
    "DESIGN.md §4 C08", TRUST)
CLAIMS["C13"] = ("other", "MIR argument-provenance and edge-dominance rules",
    "Premises of compare-and-remove: retain hands replace_node the very value pointer the predicate saw (Some), retain_force hands None; "
    "replace_node loads the stored pointer under the validated bin lock, compares by pointer identity, and unlink/retire are dominated "
    "by the true edge; predicates run under no lock; the retain / retain_force methods of the reference wrappers and of the set forward to the map method of the same name. Not decided: equality with std retain on concrete histories. The removal routine retries when the bin it locked is no longer the head (N5 = L14).",
    "DESIGN.md §4 C13", TRUST)
CLAIMS["C18"] = ("other", "MIR unwind-edge analysis (cleanup paths, drop flags by reaching definitions) + call-graph effect rule",
    "Whole structural content: every callback that runs while a bin lock is (or may be) held unwinds through the Drop of a lock guard on "
    "every cleanup path; no user code (directly or via callees) runs inside the manually released tree write-lock region; retain "
    "predicates run under no lock; no shared write or retire precedes the callback inside its critical section, so a panic leaves the "
    "entry as found; no callback runs between an unlink and its count adjustment; no lock acquisition propagates poisoning (a std lock whose "
    "LockResult is unwrapped would make every later operation panic after one panicking callback); thread-local state changed around a callback is restored on the unwind path too. Unwinding out of a caller-supplied closure retires, frees and writes nothing (U8); a panic that is caught (catch_unwind) and re-raised later is followed by no write, retire, unlink or count adjustment either (U9). Not decided: observable state of later operations on concrete histories. No value dropped while unwinding out of a callback has a Drop impl that can panic (U10). A removal decided by retain / retain_force is carried out before the predicate runs again (U11).",
    "DESIGN.md §4 C18", TRUST)

CLAIMS["C16"] = ("proof", "signature (lifetime) rule over the type-checked API + compile-fail witnesses with compiling twins judged by rustc",
    "Whole property, for all client programs: every exported facade method whose result carries a lifetime ties it to the single "
    "lifetime shared by &self and the &Guard parameter (pinned references: to &self); no 'static requirement on K/V/Q/T/S; and for each "
    "such method generated client programs that use the result (and items yielded by returned iterators) after drop(guard), "
    "guard.refresh() or drop(collection) are rejected by rustc's borrow checker with a borrow error code only, while the twin without "
    "the offending line compiles; non-'static keys/values/lookup keys compile. Obligations are discharged by the signature check or by "
    "the compiler itself.",
    "DESIGN.md §4 C16", "Trusted: rustc nightly 1.97 borrow checker and fn_sig printing; the witness generator (twins guard against ill-formed witnesses).")
CLAIMS["C17"] = ("proof", "predicate (trait-bound) rule over the resolved call graph + compile-fail witnesses with compiling twins judged by rustc",
    "Whole property, for all client programs: every exported function from which the call graph reaches the allocation of a value "
    "carries Send+Sync on key and value type; the unsafe Send/Sync impls of the bin entry are conditional on K,V; lookups stay "
    "unbounded; and for every inserting entry point (inherent, Extend, FromIterator, Clone, serde Deserialize, rayon) client programs with "
    "a key or value that is !Send+!Sync, Send-only or Sync-only are rejected by the trait solver (E0277/E0599 only) while the thread-safe "
    "twin compiles.",
    "DESIGN.md §4 C17", "Trusted: rustc nightly 1.97 trait solver and predicates_of; the witness generator.")

CLAIMS["C15"] = ("other", "memory-ordering discipline: enumeration of every atomic site with constant orderings + context classification with lifting",
    "Necessary (and, for release/acquire chains on one location, the standard sufficient) condition: every publishing store/swap/CAS on a "
    "pointer slot or the tree-bin lock word is >= Release, every raw observing load >= Acquire (guarded loads are SeqCst inside seize), the "
    "dereferenced failure value of the bin CAS is loaded >= Acquire, and every weaker ordering sits where something else orders it: "
    "private node, tree write-lock region (released by unlock_root's Release store), bin-lock region for Relaxed copies, or exclusive "
    "access; helpers are lifted to their call sites. Not decided: full memory-model behaviour of whole executions.",
    "DESIGN.md §4 C15", TRUST + " seize::Guard::protect loads SeqCst for pinned guards (read in seize 0.3.3 raw.rs).")

CLAIMS["C10"] = ("other", "MIR path rules (edge dominance, must-pass-through) + affine forms of the size_ctl protocol + evaluated constants",
    "Clauses: exactly the last participant (won sc-1 CAS and sc-2 == stamp) can set the finishing flag; the publication block (clear "
    "next_table, swap table, retire old, store 3/4 threshold) is gated by it, ordered and complete; the next table is exactly twice as long; "
    "initiation is guarded by len < 2^30; the size_ctl bit layout holds for the evaluated constants; every won initiator/helper ticket leads "
    "to transfer and transfer gives the ticket back on every exit; every joining site refuses to join on the same five atoms (sign, same generation stamp, full, finishing, no strides left); stride claiming makes progress (fresh positive index, strictly lower new value, index steps by one); the elected finisher sweeps the whole old table (i := len, decrement loop re-entered) before publishing; a bin is migrated only under its lock after re-validating the head; an initiator's table belongs to the size_ctl generation of its ticket. Not "
    "decided: 'every old bin migrated exactly once' and non-overlap of generations over all schedules (needs interleaving semantics). An old bin is marked as forwarded only after both halves are in the new table (Z14 = L3). add_count re-reads the count after every resize it took part in (Z16). Every add_count with a positive delta passes Some(hint), so an insert always reaches the threshold test (Z17).",
    "DESIGN.md §4 C10", TRUST)
CLAIMS["C11"] = ("other", "lock-order graph over the resolved call graph + acquire/release pairing and park-protocol path rules",
    "Clauses; fair-schedule liveness itself is NOT decided. Decided: at most one bin lock is ever held (no acquisition reachable through "
    "any callee while one is held) and the tree write lock is only taken under a bin lock, paired on all paths with nothing locked inside "
    "-- so the lock-order graph bin -> root is acyclic and no cyclic wait exists under any schedule; the park protocol (flag-gated park, "
    "WAITER bit set by a won CAS, handle published before parking, state re-read after wake-up, last reader unparks on READER|WAITER); the "
    "initialisation ticket is released on every path and losers yield; writers meeting a forwarding marker move on; the five accesses of "
    "the park handshake (a store-buffering pattern) are SeqCst; every loop reachable from a read entry point has a progress witness; waiting primitives only in init_table, contended_lock and the CPU-count Once; help_transfer returns the successor of the table it was given whenever there is one.",
    "DESIGN.md §4 C11", TRUST)

CLAIMS["C05"] = ("other", "ESP path-sensitive typestate over MIR + provenance (power-of-two) analysis",
    "Clauses: the entry count is adjusted exactly once per link (put: won empty-bin CAS, append, tree insert) and per unlink "
    "(compute_if_present, replace_node; clear per walked node), on every feasible path -- infeasible paths pruned by tracking the flags the "
    "code branches on; one finisher publishes a resize and clears the resizing state; every table length has power-of-two provenance; transfer splits a bin by the bit hash & n into index i (zero half) and i + n; the traverser yields every successor / tree-bin first node / list head that is there (Q8 = T5 of C07). "
    "Not decided: iteration = lookup as a whole, entry placement (index i vs i+n), absence of duplicate keys, 'no forwarding marker left behind'. The entry counter changes only by fetch_add / fetch_sub of the delta handed to add_count (Q9).",
    "DESIGN.md §4 C05", TRUST + " ESP tracks the named bool/Option flag locals of each body; an untracked correlation would show up as a reported path.")

CLAIMS["C04"] = ("other", "ownership typestate over MIR: must-consume rules + ESP path-sensitive typestate",
    "Clauses: at every site where ownership of a heap object changes hands -- every swap result is retired/freed/returned/asserted null "
    "on all paths, every boxed object has a consumer, the node of a failed empty-bin CAS is reclaimed; shared value pointers are never "
    "retired with their old containers (tree bins via defer_drop_without_values, temporary nodes without values, drop constants); put's "
    "value is published exactly once or handed back exactly once, consistent with the returned PutResult variant, and is still owned on "
    "every retry; a removed/replaced value is retired exactly once (callee iff drop_value and no untreeify, else caller); teardown frees "
    "nodes, values, tree bins, the table and the forwarding node; a private list of fresh tree nodes is handed to exactly one of TreeBin::new / "
    "drop_tree_nodes on every path. A tree bin retired whole keeps its values to itself (O10); every iteration of a retire walk retires the node under its cursor (O8); a removal acts only after the head was re-validated under the lock (O9 = L1). Not decided: drop counts over all concurrent histories, 'dropped after "
    "the last guard' (that is seize's contract). The tallies of transfer's splitting walk count the nodes copied (O11).",
    "DESIGN.md §4 C04", TRUST)

NOT_APPLICABLE = {
    "C02": "Quantifies over all operation sequences x hashers x capacities and asserts equality of run-time values (return values, "
           "contents) with a reference map; no path-, type- or call-graph-shaped clause carries it. Its only structural clause "
           "(facade independence) is rule L6 under C01. Static analysis cannot decide it; a runtime/differential check would be a "
           "different technique family.",
    "C06": "Red-black balance, BST order and list/tree agreement are shape invariants of heap data over all insertion/removal "
           "orders; deciding them needs a shape or deductive verifier (different family). The only code-shaped facts (thresholds "
           "8/64/6) do not decide balance; the 64-bin threshold is checked under C14 (K5).",
}

PENDING = {}


def main():
    checks = []
    for pid in sorted(CLAIMS):
        cat, tech, text, ref, note = CLAIMS[pid]
        checks.append(dict(
            property_id=pid,
            quick_cmd="./vf.sh check %s --tier quick" % pid,
            thorough_cmd="./vf.sh check %s --tier thorough" % pid,
            evidence_file="/verif/evidence/%s.json" % pid,
            replay_cmd_template="./vf.sh explain {path}",
            engine="vf",
            level_claimed=dict(category=cat, text=text, design_ref=ref),
            level_note=note,
            technique=tech,
        ))
    na = [dict(property_id=k, reason=v) for k, v in sorted(NOT_APPLICABLE.items())]
    all_ids = ["C%02d" % i for i in range(1, 20)]
    for pid in all_ids:
        if pid not in CLAIMS and pid not in NOT_APPLICABLE:
            na.append(dict(property_id=pid, reason=PENDING.get(pid, "not claimed yet: its static rules (DESIGN.md §4) are not "
                                                                 "implemented in this commit; no check is registered rather than a placeholder.")))
    na.sort(key=lambda d: d["property_id"])
    m = dict(
        version=1,
        setup_cmd="cd /verif/driver && CARGO_NET_OFFLINE=true cargo +nightly build --release --offline",
        hooks=dict(
            guard="flurry_verif",
            enable="none needed: static analysis reads /repo as it is (guard name reserved, unused)",
            baseline_off_cmd="cd /repo && cargo nextest run --workspace --no-fail-fast --test-threads 8 --offline || cargo test --workspace --no-fail-fast --offline",
            source_commits=[],
            add_only=True,
        ),
        engines=[dict(name="vf", path="/verif/vf", serves_properties=sorted(CLAIMS),
                      kind_free_text="custom static analysis: rustc_private MIR fact extractor (/verif/driver) + Python rule engine "
                                     "(dominance, must-pass-through, lock regions, taint, typestate, affine forms, call-graph effects) "
                                     "+ compile-fail/compile-pass witness programs judged by rustc")],
        checks=checks,
        not_applicable=na,
        notes="Technique family: static analysis only. Exit codes: 0 held; 1 VIOLATION (replay file names the construct); 3 INCONCLUSIVE "
              "(anchor not resolved / instance count below its floor / extraction failed) -- never a vacuous pass. Fix commits in /repo are "
              "listed in /verif/known_findings.txt.",
    )
    with open(os.path.join(VERIF, "MANIFEST.json"), "w") as f:
        json.dump(m, f, indent=1)
        f.write("\n")
    print("MANIFEST.json: %d checks, %d not_applicable" % (len(checks), len(na)))


if __name__ == "__main__":
    sys.exit(main())
