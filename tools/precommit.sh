#!/bin/bash
# run every registered quick check on /repo, validate manifest + evidence; non-zero if anything is off
cd /verif || exit 2
python3 tools/gen_manifest.py >/dev/null || exit 2
bad=0
for p in $(python3 -c "import json; print(' '.join(c['property_id'] for c in json.load(open('MANIFEST.json'))['checks']))"); do
  out=$(./vf.sh check $p --tier quick 2>&1); rc=$?
  if [ $rc -ne 0 ]; then echo "!! $p exit $rc"; echo "$out" | grep -E "VIOLATION|INCONCLUSIVE|Traceback|Error" | head -5; bad=1; fi
done
python3-vt tools/validate.py >/dev/null || { echo "!! validation failed"; bad=1; }
[ $bad -eq 0 ] && echo "precommit: all $(ls evidence/C*.json | wc -l) checks exit 0, manifest and evidence valid"
exit $bad
