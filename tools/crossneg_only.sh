#!/bin/bash
# usage: crossneg_only.sh <regex>  -- run the negative mutants whose name matches against every property
cd /verif && python3 - "$1" <<'PY'
import sys, re, json, os, glob, concurrent.futures
sys.path.insert(0, '/verif')
from vf import selftest as S
pat = sys.argv[1]
metas = [S.parse(p) for p in sorted(glob.glob('/verif/mutants/*.patch') + (glob.glob('/tmp/pending-neg/*.patch') if os.environ.get('PENDING') else []))]
metas = [m for m in metas if m.get('kind') == 'negative' and re.search(pat, m['name'])]
props = [c['property_id'] for c in json.load(open('/verif/MANIFEST.json'))['checks']]
jobs = []
for m in metas:
    for p in props:
        mm = dict(m); mm['property'] = p; mm['name'] = '%s@%s' % (m['name'], p); jobs.append(mm)
bad = 0
with concurrent.futures.ThreadPoolExecutor(max_workers=12) as ex:
    for r in ex.map(lambda m: S.run_one(m, S.X.REPO), jobs):
        if r['status'] != 'ok':
            bad += 1
            print(r['status'], r['name'], r.get('rules_fired'), 'exit', r.get('exit'))
print('%d runs, %d not silent' % (len(jobs), bad))
PY
