#!/bin/sh
# usage: mkmutant.sh <name> <property> <expected-rule|none> <positive|negative> "<description>"
# takes the uncommitted diff of the scratch worktree /tmp/flurry-mut, stores it as a mutant, resets the worktree
set -e
W=/tmp/flurry-mut
[ -d $W ] || git -C /repo worktree add -f --detach $W HEAD -q
out=/verif/mutants/$1.patch
{ echo "# property: $2"; echo "# expect: $3"; echo "# kind: $4"; echo "# what: $5"; git -C $W diff; } > $out
git -C $W checkout -q -- .
n=$(grep -c '^@@' $out || true)
echo "wrote $out ($n hunks)"
