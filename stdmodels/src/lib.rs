//! Reference implementations of closure-taking std combinators, compiled by the /verif driver into MIR facts
//! (tools/gen_std_models.sh -> vf/std_models.json).  vf/inline.py splices them in for call sites of these std functions that the
//! pinned tree does not have, so that `opt.is_some_and(|v| cond(v))` is analysed as the `match` it abbreviates.
//! The function name encodes the std def path: `<Type>__<method>`.
#![allow(clippy::all)]

pub fn Option__map<T, U, F: FnOnce(T) -> U>(this: Option<T>, f: F) -> Option<U> {
    match this {
        Some(x) => Some(f(x)),
        None => None,
    }
}
pub fn Option__map_or<T, U, F: FnOnce(T) -> U>(this: Option<T>, default: U, f: F) -> U {
    match this {
        Some(x) => f(x),
        None => default,
    }
}
pub fn Option__map_or_else<T, U, D: FnOnce() -> U, F: FnOnce(T) -> U>(this: Option<T>, default: D, f: F) -> U {
    match this {
        Some(x) => f(x),
        None => default(),
    }
}
pub fn Option__and_then<T, U, F: FnOnce(T) -> Option<U>>(this: Option<T>, f: F) -> Option<U> {
    match this {
        Some(x) => f(x),
        None => None,
    }
}
pub fn Option__is_some_and<T, F: FnOnce(T) -> bool>(this: Option<T>, f: F) -> bool {
    match this {
        None => false,
        Some(x) => f(x),
    }
}
pub fn Option__is_none_or<T, F: FnOnce(T) -> bool>(this: Option<T>, f: F) -> bool {
    match this {
        None => true,
        Some(x) => f(x),
    }
}
pub fn Option__unwrap_or_else<T, F: FnOnce() -> T>(this: Option<T>, f: F) -> T {
    match this {
        Some(x) => x,
        None => f(),
    }
}
pub fn Option__or_else<T, F: FnOnce() -> Option<T>>(this: Option<T>, f: F) -> Option<T> {
    match this {
        x @ Some(_) => x,
        None => f(),
    }
}
pub fn Option__filter<T, P: FnOnce(&T) -> bool>(this: Option<T>, predicate: P) -> Option<T> {
    if let Some(x) = this {
        if predicate(&x) {
            return Some(x);
        }
    }
    None
}
pub fn Option__unwrap_or<T>(this: Option<T>, default: T) -> T {
    match this {
        Some(x) => x,
        None => default,
    }
}
pub fn Result__map_or<T, E, U, F: FnOnce(T) -> U>(this: Result<T, E>, default: U, f: F) -> U {
    match this {
        Ok(t) => f(t),
        Err(_) => default,
    }
}
pub fn Result__is_ok_and<T, E, F: FnOnce(T) -> bool>(this: Result<T, E>, f: F) -> bool {
    match this {
        Err(_) => false,
        Ok(x) => f(x),
    }
}
pub fn Result__is_err_and<T, E, F: FnOnce(E) -> bool>(this: Result<T, E>, f: F) -> bool {
    match this {
        Ok(_) => false,
        Err(e) => f(e),
    }
}
pub fn Result__unwrap_or_else<T, E, F: FnOnce(E) -> T>(this: Result<T, E>, f: F) -> T {
    match this {
        Ok(t) => t,
        Err(e) => f(e),
    }
}
pub fn Result__unwrap_or<T, E>(this: Result<T, E>, default: T) -> T {
    match this {
        Ok(t) => t,
        Err(_) => default,
    }
}
pub fn bool__then<T, F: FnOnce() -> T>(this: bool, f: F) -> Option<T> {
    if this {
        Some(f())
    } else {
        None
    }
}
pub fn bool__then_some<T>(this: bool, t: T) -> Option<T> {
    if this {
        Some(t)
    } else {
        None
    }
}
