"""C03 -- references under a guard never dangle; freed memory is never touched.
M1 unprotected guards never reach a retire / M2 unlink before retire on all paths / M3 immediate frees only on private or
exclusively owned objects / M4 copy loop and retire loop agree.  (M5 = T1, evaluated under C07.)"""
from collections import deque

from .analysis import flow, reach, after, entry, Point, regions, back_edges, loop_blocks, cond_of, is_view, succ_points, value_chains
from .anchors import anchors, callee_str, is_shared_write, is_link_load, receiver_field, is_reclaim_atomic, is_fresh_alloc
from .callgraph import callgraph
from .facts import strip_generics, op_root, op_local, place_fields

PROP = "C03"
LEVEL = "other"
EXPLANATION = (
    "Static taint and ordering rules over MIR. M1: every Guard::unprotected() result is tainted and followed through references, "
    "arguments, aggregates and closure captures over the resolved call graph; seize reclaims immediately under such a guard, so a "
    "tainted guard must never reach a retire in a body that afterwards touches the retired object or a lock inside it. M2: for each of "
    "the retire sites, on every CFG path that realises the value flow origin -> copies -> retire operand, an unlink write on the right "
    "container (store_bin/cas_bin on the origin's table, a store to the predecessor's next / the tree bin's first, a store/swap of the "
    "value slot, or remove_tree_node) is executed before the retire; swap/CAS results are unlinked by construction. M3: Box::from_raw and "
    "its wrappers are applied only to objects that are private to the body (fresh Shared::boxed, CAS-failure node), or inside teardown "
    "(&mut self / Drop) or a reclaimer closure. M4: where a bin is copied and the originals retired, the retire loop starts at the same "
    "head and stops at the same sentinel as the copy loop. Not decided: the collector's own correctness; value-level aliasing beyond copies.")


# ------------------------------------------------------------------------------------------------ M1

def taint_unprotected(facts):
    """{(body id, local)} tainted by Guard::unprotected(), with provenance chains"""
    cg = callgraph(facts)
    tainted = {}     # (body id, local) -> (origin description)
    work = deque()
    for b in facts.bodies:
        for c in b.calls:
            if callee_str(c).endswith("Guard::unprotected") and c.dst_local() is not None:
                src = "%s at %s" % (strip_generics(b.id), c.span)
                for l in flow(b).flows_to(c.dst_local()):
                    if (b.id, l) not in tainted:
                        tainted[(b.id, l)] = [src]
                        work.append((b.id, l))
    param_done = set()
    while work:
        bid, l = work.popleft()
        b = facts.by_id[bid]
        chain = tainted[(bid, l)]
        for c in b.calls:
            for k, a in enumerate(c.args):
                if op_root(a) != l:
                    continue
                tb = facts.by_id.get(c.resolved)
                if tb is None or tb.kind == "Closure":
                    continue
                key = (tb.id, k + 1)
                if key in param_done:
                    continue
                param_done.add(key)
                for l2 in flow(tb).flows_to(k + 1):
                    if (tb.id, l2) not in tainted:
                        tainted[(tb.id, l2)] = chain + ["%s (call at %s)" % (strip_generics(tb.id), c.span)]
                        work.append((tb.id, l2))
        # closure captures
        for bi, blk in enumerate(b.blocks):
            for st in blk["stmts"]:
                if st["k"] == "assign" and "agg" in st["rv"] and "closure" in st["rv"]["agg"]:
                    for oi, o in enumerate(st["rv"]["ops"]):
                        if op_root(o) == l:
                            cb = facts.by_id.get(st["rv"]["agg"]["closure"])
                            if cb is None:
                                continue
                            for bb in cb.blocks:
                                for s2 in bb["stmts"]:
                                    if s2["k"] != "assign":
                                        continue
                                    rv = s2["rv"]
                                    p = rv.get("ref") or (rv.get("use") and (rv["use"].get("copy") or rv["use"].get("move")))
                                    if p and p["local"] == 1 and any(n == "upvar%d" % oi for _, n in place_fields(p)):
                                        for l2 in flow(cb).flows_to(s2["dst"]["local"]):
                                            if (cb.id, l2) not in tainted:
                                                tainted[(cb.id, l2)] = chain + ["%s (captured at %s)" % (strip_generics(cb.id), st["span"])]
                                                work.append((cb.id, l2))
    return tainted


def relatives(body, l):
    """locals related to l by copy / ref / view / field in either direction"""
    fl = flow(body)
    anc = fl.closure_locals(l)
    out = set(anc)
    for a in anc:
        out |= fl.flows_to(a)
    return out


def uses_local(body, pt, locs):
    st = body.stmt(pt)
    if st is not None:
        if st["k"] != "assign":
            return False
        rv = st["rv"]
        for key in ("use", "cast", "a", "b"):
            if key in rv and isinstance(rv[key], dict) and op_root(rv[key]) in locs:
                return True
        for key in ("ref", "rawptr", "discr"):
            if key in rv and rv[key]["local"] in locs:
                return True
        if "ops" in rv and any(op_root(o) in locs for o in rv["ops"]):
            return True
        return False
    t = body.term(pt[0])
    if t["k"] == "call":
        return any(op_root(a) in locs for a in t["args"])
    if t["k"] == "switch":
        return op_root(t["on"]) in locs
    return False


def rule_m1(ctx, facts):
    an = anchors(facts)
    tainted = taint_unprotected(facts)
    sources = sorted({v[0] for v in tainted.values()})
    n_sites = 0
    reported = set()
    for b in facts.bodies:
        if b.id in an.retire_fns:
            continue
        for c in b.calls:
            k = an.is_retire(c)
            if k is None or b.is_cleanup(c.b):
                continue
            g = an.retire_guard_arg(c)
            gl = op_root(c.args[g]) if g is not None and g < len(c.args) else None
            if gl is None or (b.id, gl) not in tainted:
                continue
            n_sites += 1
            # later touch of the retired object (or of a lock that lives in it)?
            x = op_root(c.args[k])
            rel = relatives(b, x) if x is not None else set()
            later = reach(b, after(b, c.point, label="ret"))
            touch = None
            for pt in sorted(later):
                if pt == c.point:
                    continue
                if uses_local(b, pt, rel):
                    touch = ("use of an alias of the retired pointer", b.span_at(pt))
                    break
            if touch is None:
                for r in regions(b):
                    recv = r.call.arg_local(0)
                    if recv is not None and (flow(b).closure_locals(recv) & rel):
                        for kp in r.kills:
                            if kp in later:
                                touch = ("release of the bin lock that lives inside the retired node", b.span_at(kp))
                                break
                    if touch:
                        break
            chain = tainted[(b.id, gl)]
            key = (chain[0], b.id)
            if touch and key not in reported:
                reported.add(key)
                ctx.inst("M1", chain[0].split(" at ")[0], "unprotected guard reaches retire in %s" % strip_generics(b.id), c.span, False,
                         "Guard::unprotected() created in %s flows %s; the retire at %s reclaims immediately, and afterwards: %s at %s"
                         % (chain[0], " -> ".join(chain[1:]) or "(same body)", c.span, touch[0], touch[1]), path=chain)
    for s in sources:
        fn = s.split(" at ")[0]
        if not any(i.rule == "M1" and not i.ok and i.fn == fn for i in ctx.instances if i.config == ctx.config):
            ctx.inst("M1", fn, "unprotected guard", s.split(" at ")[1], True,
                     "taint closed over the call graph: reaches no retire that is followed by a touch of the retired object")
    ctx.note("M1: %d unprotected-guard sources; %d retire sites reached by taint" % (len(sources), n_sites))


# ------------------------------------------------------------------------------------------------ M2

NODE_LINK_FIELDS = {("node::Node", "next"), ("node::TreeBin", "first"), ("node::TreeBin", "root"), ("node::TreeNode", "prev"),
                    ("node::TreeNode", "left"), ("node::TreeNode", "right"), ("node::TreeNode", "parent")}
VALUE_FIELDS = {("node::Node", "value")}


def origin_tables(body, l, depth=0, seen=None):
    """receiver locals of every Table::bin call from which l may (transitively through next links) derive; None if it also derives
    from something else (parameter, other call)"""
    fl = flow(body)
    seen = seen if seen is not None else set()
    tabs = set()
    other = set()
    stack = [l]
    while stack:
        x = stack.pop()
        if x in seen:
            continue
        seen.add(x)
        roots, _ = fl.roots(x)
        for r in roots:
            if r[0] == "call":
                c = body.call_at(r[1])
                kind = is_link_load(c)
                if kind == "bin":
                    rl = op_root(c.args[0])
                    if rl is not None:
                        tabs.add(rl)
                elif kind == "load":
                    rl = op_root(c.args[0])
                    if rl is not None:
                        stack.append(rl)
                else:
                    other.add(callee_str(c))
            elif r[0] == "arg":
                other.add("arg%d" % r[1])
    return tabs, other


def unlink_events(body, retired_local, an):
    """points whose execution unlinks (some container of) the retired object"""
    fl = flow(body)
    ty = body.ty(retired_local)
    is_value = ty.get("args") and not ty["args"][-1].startswith("node::BinEntry") and not ty["args"][-1].startswith("raw::Table")
    tabs, other = origin_tables(body, retired_local)
    tab_closure = set()
    for t in tabs:
        tab_closure |= fl.closure_locals(t)
    roots, _ = fl.roots(retired_local)
    root_calls = [body.call_at(r[1]) for r in roots if r[0] == "call"]
    only_bin = bool(root_calls) and all(is_link_load(rc) == "bin" for rc in root_calls) and not any(r[0] == "arg" for r in roots)
    klass = "value" if is_value else ("bin" if only_bin else "node")
    mine = fl.copies_of(retired_local)
    ev = {}
    edges = set()
    for c in body.calls:
        if body.is_cleanup(c.b):
            continue
        s = callee_str(c)
        w = is_shared_write(c)
        if w and w[0] == "table":
            rl = op_root(c.args[0])
            if not tabs or (rl is not None and (fl.closure_locals(rl) & tab_closure)):
                ev[c.point] = "%s on the origin table at %s" % (w[1], c.span)
        elif w and w[0] == "reclaim":
            f = receiver_field(body, c, 0)
            if klass != "bin" and (f & NODE_LINK_FIELDS):
                # a link of a node that this body has just allocated (the copy being built) is not a link of the shared structure:
                # writing it unlinks nothing
                from .rules_c07 import private_roots
                tl = op_root(c.args[0])
                if tl is not None and body.ty(tl).get("s") and not private_roots(body, tl):
                    continue
                ev[c.point] = "%s of %s at %s" % (w[1], sorted(f)[0][1], c.span)
            elif klass == "value" and (f & VALUE_FIELDS):
                ev[c.point] = "%s of the value slot at %s" % (w[1], c.span)
        elif s.endswith("TreeBin::remove_tree_node") and klass != "bin":
            # unlinks the node passed as its argument (and, for a value, the node that holds it) -- completely only when it does not ask
            # for untreeify (false result); on the true edge the node is still reachable through the tree until the bin is replaced
            pl = op_root(c.args[1]) if len(c.args) > 1 else None
            if klass == "value" or (pl is not None and (fl.copies_of(pl) & mine)):
                dl = c.dst_local()
                found_edge = False
                for blk in range(len(body.blocks)):
                    cd = cond_of(body, blk)
                    if cd and ((cd["kind"] == "bool" and dl is not None and cd["local"] in fl.copies_of(dl)) or (cd["kind"] == "call" and cd["call"].b == c.b)):
                        edges.add((blk, cd["false"]))
                        found_edge = True
                if not found_edge:
                    ev[c.point] = "remove_tree_node at %s" % c.span
    # inside the tree-restructuring routine itself a tree node is fully unlinked only once the tree links are rewritten (unlock_root)
    from .rules_c18 import root_lock_fns
    acq, rel = root_lock_fns(body.facts)
    rel_ids = {x.id for x in rel}
    unlocks = [c for c in body.calls if c.resolved in rel_ids and not body.is_cleanup(c.b)]
    if unlocks and klass == "node":
        ev = {c.point: "unlock_root (tree links rewritten) at %s" % c.span for c in unlocks}
        ev.update({c.point: "store_bin" for c in body.calls if callee_str(c).endswith("raw::Table::store_bin")})
        edges = set()
    return ev, tabs, edges


def realisable_without(body, chain, goal, blockers, blocker_edges=()):
    """is there a CFG path entry -> goal that executes the chain's def points in order and never executes a blocker?"""
    pts = [p for p in chain if not (isinstance(p, tuple) and p and p[0] == "arg")]
    k = len(pts)
    start = (entry(body), 0)
    seen = {start}
    dq = deque([start])
    while dq:
        pt, stage = dq.popleft()
        if pt in blockers:
            continue  # executing a blocker: this path has unlinked
        ns = stage
        if stage < k and pt == pts[stage]:
            ns = stage + 1
        if pt == goal and ns == k:
            return True
        for nx in succ_points(body, pt, unwind=False, avoid_edges=set(blocker_edges) if blocker_edges else None):
            st = (nx, ns)
            if st not in seen:
                seen.add(st)
                dq.append(st)
    return False


def rule_m2(ctx, facts):
    an = anchors(facts)
    for b in facts.bodies:
        if b.id in an.retire_fns:
            continue
        fl = flow(b)
        for c in b.calls:
            k = an.is_retire(c)
            if k is None or b.is_cleanup(c.b):
                continue
            x = op_root(c.args[k])
            what = "retire(%s)" % (b.local_name(x) or ("_%d" % x))
            roots, _ = fl.roots(x)
            root_calls = [b.call_at(r[1]) for r in roots if r[0] == "call"]
            # (i) unlinked by construction
            by_constr = [rc for rc in root_calls if is_reclaim_atomic(rc) in ("swap", "compare_exchange")]
            if root_calls and len(by_constr) == len(root_calls) and not any(r[0] == "arg" for r in roots):
                ctx.inst("M2", b, what, c.span, True, "operand is the result of %s at %s: the producing operation is the unlink"
                         % (callee_str(by_constr[0]).rsplit("::", 1)[-1], by_constr[0].span))
                continue
            ev, tabs, uedges = unlink_events(b, x, an)
            chains = value_chains(b, x)
            bad = None
            for ch in chains:
                # chains that start at a swap result are unlinked by construction
                if ch and not (isinstance(ch[0], tuple) and ch[0][0] == "arg"):
                    oc = b.call_at(ch[0][0])
                    if oc and is_reclaim_atomic(oc) in ("swap", "compare_exchange"):
                        continue
                if realisable_without(b, ch, c.point, set(ev), uedges):
                    bad = ch
                    break
            if bad is None:
                ctx.inst("M2", b, what, c.span, True, "every value-flow path to the retire executes an unlink first (%d chain(s); unlink events: %s%s)"
                         % (len(chains), "; ".join(sorted(set(ev.values())))[:240], "; false edge of remove_tree_node" if uedges else ""))
            else:
                org = bad[0]
                odesc = ("parameter %d" % org[1]) if (isinstance(org, tuple) and org[0] == "arg") else "%s at %s" % (
                    callee_str(b.call_at(org[0])) if b.call_at(org[0]) else "def", b.span_at(org))
                ctx.inst("M2", b, what, c.span, False,
                         "reachable from origin %s without any unlink write on its container (accepted unlinks here: %s)"
                         % (odesc, "; ".join(sorted(set(ev.values())))[:300] or "none found"),
                         path=[b.span_at(p) for p in bad if not (isinstance(p, tuple) and p[0] == "arg")])


# ------------------------------------------------------------------------------------------------ M3

def rule_m3(ctx, facts):
    an = anchors(facts)
    cg = callgraph(facts)
    # closures handed to defer_retire are reclaimers
    reclaimers = set()
    for b in facts.bodies:
        for c in b.calls:
            if callee_str(c).endswith("Guard::defer_retire") or callee_str(c).endswith("Collector::retire"):
                for a in c.args:
                    l = op_root(a)
                    if l is not None and b.ty(l)["head"].startswith("closure:"):
                        reclaimers.add(b.ty(l)["head"][len("closure:"):])
    for c_ in facts.bodies:
        for c in c_.calls:
            if callee_str(c).endswith("Collector::retire") and not c_.is_cleanup(c.b):
                ctx.inst("M3", c_, "seize::Collector::retire", c.span, False, "retires without regard to the caller's guard")
    for b in facts.bodies:
        fl = flow(b)
        for c in b.calls:
            k = an.is_free(c)
            if k is None or b.is_cleanup(c.b) or k >= len(c.args):
                continue
            x = op_root(c.args[k])
            what = "%s(%s)" % (callee_str(c).rsplit("::", 2)[-2] + "::" + callee_str(c).rsplit("::", 1)[-1], b.local_name(x) or "_%s" % x)
            if x is None:
                continue
            # (b) teardown: &mut self receiver or Drop impl, (c) reclaimer closure
            recv_mut = b.nargs >= 1 and b.ty(1)["s"].startswith("&mut ")
            in_drop = bool(b.impl and b.impl.get("trait") == "std::ops::Drop")
            if recv_mut or in_drop:
                ctx.inst("M3", b, what, c.span, True, "teardown: exclusive access through %s" % ("Drop::drop" if in_drop else "&mut self"))
                continue
            if b.id in reclaimers or b.id.rsplit("::{closure", 1)[0] in an.retire_fns and b.kind == "Closure":
                ctx.inst("M3", b, what, c.span, True, "reclaimer closure run by the collector with unique access")
                continue
            roots, _ = fl.roots(x)
            # (d) wrapper: frees its own parameter -> obligation is on its callers
            if b.id in an.free_fns and any(r == ("arg", an.free_fns[b.id]) for r in roots):
                okw = True
                others = [r for r in roots if r[0] == "call" and not is_link_load(b.call_at(r[1]))]
                ctx.inst("M3", b, what, c.span, True, "free wrapper: frees (the list starting at) its parameter; judged at its call sites", nontrivial=False)
                continue
            # by-value ownership: operand moved out of an owned Box/aggregate (Atomic by value)
            bad = []
            for r in roots:
                if r[0] == "call":
                    rc = b.call_at(r[1])
                    s = callee_str(rc)
                    if is_fresh_alloc(b, rc) or s.endswith("reclaim::Shared::null"):
                        continue
                    if an.is_free(rc) is not None:
                        continue  # moved out of a Box this body already owns (the earlier free is judged on its own)
                    if s.endswith("raw::Table::cas_bin") or (is_reclaim_atomic(rc) == "compare_exchange"):
                        # only the `.new` field of the failure value is private
                        fields = {f for base, fs in fl.ref_fields(x) for f in fs} | _use_fields(b, x)
                        from .anchors import cas_failure_fields
                        cas_new, cas_cur = cas_failure_fields(facts)
                        if fields & cas_new and not fields & cas_cur:
                            newl = op_root(rc.args[3 if s.endswith("cas_bin") else 2])
                            nroots, _ = fl.roots(newl) if newl is not None else (set(), None)
                            if all(is_fresh_alloc(b, b.call_at(q[1])) for q in nroots if q[0] == "call") and nroots:
                                continue
                        bad.append("CAS result (not the private `new` of a failed CAS)")
                        continue
                    bad.append("%s at %s" % (s, rc.span))
                elif r[0] == "arg":
                    bad.append("parameter %d" % r[1])
            if bad:
                ctx.inst("M3", b, what, c.span, False,
                         "immediate free of an object that is not private to this body (origin: %s) in a function that only has shared access"
                         % "; ".join(bad)[:300])
            else:
                ctx.inst("M3", b, what, c.span, True, "operand is private: fresh Shared::boxed / null / the `new` node of a failed CAS")


def _use_fields(body, l):
    """fields projected when l is defined by `use place`"""
    out = set()
    seen = set()
    stack = [l]
    while stack:
        x = stack.pop()
        if x in seen:
            continue
        seen.add(x)
        for kind, data, pt in flow(body).sources(x):
            if kind == "field":
                out |= set(place_fields(data))
            elif kind == "copy":
                stack.append(data)
    return out


# ------------------------------------------------------------------------------------------------ M4

def loop_cursor_info(body, loop, head):
    """exit tests of the loop: list of dict(kind, locals) for is_null / ptr_eq conditions with an edge leaving the loop"""
    out = []
    for b in loop:
        c = cond_of(body, b)
        if not c:
            continue
        leaves = [t for t in (c["true"], c["false"]) if t not in loop]
        if not leaves:
            continue
        if c["kind"] == "is_null":
            out.append(dict(kind="is_null", cursor=c["arg"], sentinel=None, span=body.term(b)["span"]))
        elif c["kind"] == "ptr_eq":
            out.append(dict(kind="ptr_eq", cursor=c["a"], sentinel=c["b"], span=body.term(b)["span"]))
    return out


def cursor_init(body, loop, cursor):
    """locals copied into the cursor outside the loop"""
    fl = flow(body)
    out = set()
    for l in fl.copies_of(cursor):
        for pt, kind, data in body.defs.get(l, []):
            if pt[0] in loop:
                continue
            if kind == "assign" and "use" in data["rv"]:
                r = op_local(data["rv"]["use"])
                if r is not None:
                    out.add(r)
    return out


def rule_m4(ctx, facts):
    an = anchors(facts)
    for b in facts.bodies:
        # bodies that copy nodes sharing their values
        if not any(callee_str(c).endswith("clone") and c.callee.get("self_ty", {}).get("base") == "reclaim::Atomic" for c in b.calls):
            continue
        fl = flow(b)
        loops = []
        for be in back_edges(b):
            if b.is_cleanup(be[1]):
                continue
            loops.append((be, loop_blocks(b, be)))
        retire_loops = []
        copy_loops = []
        for be, L in loops:
            has_retire = [c for c in b.calls if c.b in L and an.is_retire(c) is not None]
            has_boxed = [c for c in b.calls if c.b in L and callee_str(c).endswith("Shared::boxed")]
            has_clone = [c for c in b.calls if c.b in L and callee_str(c).endswith("clone") and c.callee.get("self_ty", {}).get("base") == "reclaim::Atomic"]
            if has_retire and not has_boxed:
                retire_loops.append((be, L, has_retire))
            if has_boxed and has_clone:
                copy_loops.append((be, L))
        for be, L, rets in retire_loops:
            # innermost copy loop candidates: compare exit tests
            rinfo = loop_cursor_info(b, L, be[1])
            matched = False
            detail = ""
            for cbe, CL in copy_loops:
                if CL >= L and CL != L and len(CL) > len(L) * 3:
                    pass
                cinfo = loop_cursor_info(b, CL, cbe[1])
                for r in rinfo:
                    for ci in cinfo:
                        if r["kind"] != ci["kind"]:
                            continue
                        same_sent = (r["sentinel"] is None and ci["sentinel"] is None) or (
                            r["sentinel"] is not None and ci["sentinel"] is not None and
                            (fl.copies_of(r["sentinel"]) & fl.copies_of(ci["sentinel"])))
                        ri = cursor_init(b, L, r["cursor"])
                        cin = cursor_init(b, CL, ci["cursor"])
                        same_init = bool({x for i in ri for x in fl.copies_of(i)} & {x for i in cin for x in fl.copies_of(i)})
                        if same_sent and same_init:
                            matched = True
                            detail = "retire loop (%s) and copy loop (%s): same start, same %s" % (
                                r["span"], ci["span"], "null sentinel" if r["sentinel"] is None else
                                "sentinel `%s`" % (b.local_name(r["sentinel"]) or r["sentinel"]))
            if not copy_loops:
                continue
            if matched:
                ctx.inst("M4", b, "retire loop", rets[0].span, True, detail)
            else:
                ctx.inst("M4", b, "retire loop", rets[0].span, False,
                         "the loop retiring the old nodes does not start at the same head / stop at the same sentinel as the loop that "
                         "copied them (exit tests: retire %s vs copy %s)" % (
                             [(r["kind"], b.local_name(r["sentinel"]) if r["sentinel"] is not None else None) for r in rinfo],
                             [[(ci["kind"], b.local_name(ci["sentinel"]) if ci["sentinel"] is not None else None) for ci in loop_cursor_info(b, CL, cbe[1])] for cbe, CL in copy_loops]))


def rule_m6(ctx, facts):
    """forwarded-table pointer validity: the shared Moved marker of a table is only handed out by a function that has made sure the
    table's next_table is set (T1's exceptions for `next_table` rest on exactly this)"""
    MOVED = ("raw::Table", "moved")
    NEXT = ("raw::Table", "next_table")
    readers = []
    for b in facts.bodies:
        for c in b.calls:
            if is_reclaim_atomic(c) == "load" and MOVED in receiver_field(b, c, 0) and not b.is_cleanup(c.b):
                readers.append((b, c))
    if not readers:
        ctx.fail_closed("M6: no load of Table.moved found")
        return
    for b, c in readers:
        if b.nargs >= 1 and b.ty(1)["s"].startswith("&mut "):
            continue
        sets = {x.point for x in b.calls if is_reclaim_atomic(x) == "compare_exchange" and NEXT in receiver_field(b, x, 0)}
        edges = set()
        fl = flow(b)
        for blk in range(len(b.blocks)):
            cd = cond_of(b, blk)
            if cd and cd["kind"] == "is_null" and cd.get("arg") is not None:
                for rc in fl.call_roots(cd["arg"]):
                    if rc is not None and (callee_str(rc).endswith("Table::next_table") or (is_reclaim_atomic(rc) == "load" and NEXT in receiver_field(b, rc, 0))):
                        edges.add((blk, cd["false"]))
        r = reach(b, [entry(b)], avoid=sets, avoid_edges=edges)
        ok = c.point not in r
        ctx.inst("M6", b, "Moved marker handed out only after next_table is set", c.span, ok,
                 "every path to the marker load passes the CAS that sets next_table or a non-null test of it" if ok else
                 "the forwarding marker can be obtained on a path on which this table's next_table has not been set: a reader that follows the marker "
                 "dereferences a null next_table")
    # stores of a Moved marker into a bin must use that function's result
    getters = {b.id for b, c in readers if not (b.nargs >= 1 and b.ty(1)["s"].startswith("&mut "))}
    for b in facts.bodies:
        for st_b in b.blocks:
            for st in st_b["stmts"]:
                if st["k"] == "assign" and "agg" in st["rv"] and st["rv"]["agg"].get("adt") == "node::BinEntry" and st["rv"]["agg"].get("variant") == "Moved":
                    ok = b.sid.endswith("raw::Table::from")
                    ctx.inst("M6", b, "Moved entries are created only with their table", st["span"], ok,
                             "created once per table in Table::from" if ok else "a BinEntry::Moved is created outside Table::from: it carries no next_table guarantee")


def relabelled(ctx, facts, fn, src_rule, dst_rule, only_what=None):
    """run a rule of another property under this one (shared clause), renaming its instances"""
    before = len(ctx.instances)
    fn(ctx, facts)
    kept = []
    for i in ctx.instances[before:]:
        if i.rule == src_rule and (only_what is None or i.what.startswith(only_what)):
            i.rule = dst_rule
            kept.append(i)
    ctx.instances[before:] = kept


def rule_m11(ctx, facts):
    """M11 = G1-G3 of C09: memory of the map is retired only through guards of the map's own collector -- every exported function uses its
    &Guard only after the collector check.  A guard of another collector (any other flurry map has one) that reaches `replace_node`
    retires the removed node and value into that collector, which frees them as soon as IT has no active guards, under the feet of the
    readers pinned in the map's own collector."""
    from . import rules_c09
    before = len(ctx.instances)
    floors_before = dict(ctx.floors)
    texts_before = dict(ctx.rule_text)
    rules_c09.run(ctx, facts)
    ctx.floors = floors_before
    ctx.rule_text = texts_before
    for i in ctx.instances[before:]:
        if i.rule in ("G1", "G2", "G3"):
            i.rule = "M11"


def run(ctx, facts):
    ctx.rule("M11", "memory is retired only through guards of the map's own collector: every exported guard-taking function checks the guard "
                    "before it uses it (rules G1-G3 of C09)", floor=30)
    rule_m11(ctx, facts)
    ctx.rule("M9", "a tree bin retired whole does not also have its nodes' values retired one by one (rule O10 of C04): a value handed to the "
                   "collector twice is freed while the second retirement still refers to it", floor=1)
    from .rules_c04 import rule_o10
    rule_o10(ctx, facts, rule="M9")
    ctx.rule("M10", "a removed or replaced value is retired exactly once (rule O4 of C04): the second retirement of a value frees it again "
                    "after the collector has already freed it", floor=3)
    from .rules_c04 import rule_o4
    rule_o4(ctx, facts, rule="M10")
    ctx.rule("M8", "bins are mutated and their nodes / values retired only inside a bin-lock region, after re-validating the locked head (rule L1 of C01): "
                   "otherwise a writer that waited for the lock works on a list that transfer has already copied and retired", floor=11)
    from .rules_c01 import rule_l1
    rule_l1(ctx, facts, rule="M8")
    ctx.rule("M7", "a tree bin replaced in its table slot is retired XOR stored into a table again (rule O6 of C04): both = freed while still linked", floor=5)
    from .rules_c04 import rule_o6
    relabelled(ctx, facts, rule_o6, "O6", "M7")
    ctx.rule("M6", "the shared forwarding marker is only handed out after next_table has been set (get_moved); Moved entries are created only in Table::from", floor=2)
    rule_m6(ctx, facts)
    ctx.rule("M1", "a Guard::unprotected() value never reaches (through args, refs, aggregates, captures) a retire that is followed by a touch "
                   "of the retired object or of a lock inside it", floor=5, floor_note="5 unprotected sites after the F1 repair: presize, HashMap::drop, drop_fields, drop_bins, Table::drop")
    ctx.rule("M2", "on every path realising the value flow to a retire operand, an unlink write on the operand's container precedes the retire",
             floor=25, floor_note="22 retire_shared + 3 defer_drop_without_values call sites")
    ctx.rule("M3", "immediate frees (Box::from_raw and wrappers) only on private objects, in teardown, or in reclaimer closures; no Collector::retire",
             floor=17, floor_note="12 + 5 sites")
    ctx.rule("M4", "retire loop and copy loop of a replaced bin agree on start and sentinel", floor=2, floor_note="transfer list arm, treeify_bin")
    rule_m1(ctx, facts)
    rule_m2(ctx, facts)
    rule_m3(ctx, facts)
    rule_m4(ctx, facts)
