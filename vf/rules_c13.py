"""C13 -- retain removes only what its predicate rejected; retain_force always removes.
N1 what retain / retain_force pass to replace_node / N2 pointer-identity test under the validated lock guards the removal /
N3 the predicate runs under no lock."""
from .analysis import flow, reach, after, Point, cond_of, dominated_by_edge, regions, held_regions_at, is_ptr_cmp
from .anchors import callee_str, receiver_field, is_reclaim_atomic
from .facts import op_root, strip_generics
from .protocol import validated_regions, user_closure_call, bin_lock_region, mutations

PROP = "C13"
LEVEL = "other"
EXPLANATION = (
    "Premises of the compare-and-remove argument, checked structurally. N1: retain calls replace_node with new_value = None and "
    "observed_value = Some(v) where v is the very value pointer that next_internal yielded together with the key the predicate saw; "
    "retain_force passes observed_value = None (and None as new value). N2: in both arms of replace_node the stored value pointer is "
    "loaded inside the validated bin-lock region and compared with the observed one by pointer identity (Shared == Shared, not V == V); "
    "the unlink, the `old_val = Some` and the node retire are dominated by the true edge of that comparison (a missing observation counts "
    "as true). N3: the predicate is called where no lock is held. Hence an entry whose value was replaced after the predicate saw it is "
    "not removed by retain, and retain_force removes regardless. Not decided: equality with the standard retain on concrete histories.")


def agg_variant(body, l):
    """variant names of the aggregate definitions of local l (through plain copies)"""
    fl = flow(body)
    out = []
    seen = set()
    stack = [l]
    while stack:
        x = stack.pop()
        if x in seen:
            continue
        seen.add(x)
        for kind, data, pt in fl.sources(x):
            if kind == "agg" and "adt" in data["rv"]["agg"]:
                out.append((data["rv"]["agg"]["variant"], data))
            elif kind == "copy":
                stack.append(data)
    return out


def run(ctx, facts):
    ctx.rule("N1", "retain passes Some(observed pointer of the same entry); retain_force passes None; both pass no new value", floor=2)
    ctx.rule("N2", "replace_node removes only on the true edge of a pointer-identity test of the value loaded under the validated lock", floor=2)
    ctx.rule("N3", "retain / retain_force call the predicate under no lock", floor=2)
    ctx.rule("N4", "the retain / retain_force methods of the reference wrappers and of the set delegate to the map method of the same name "
                   "(rule L6 of C01): a wrapper that forwards retain_force to retain silently keeps entries whose value changed", floor=4)
    from .rules_c01 import rule_l6, rule_l14
    rule_l6(ctx, facts, rule="N4", only_ops=("retain", "retain_force"))
    ctx.rule("N5", "the removal routine behind retain / retain_force tries again when the bin it locked is no longer the head (rule L14 of C01): "
                   "giving up there leaves a key that the predicate rejected in the map", floor=2)
    rule_l14(ctx, facts, rule="N5", only=("map::HashMap::replace_node",))
    # the compare-and-remove routine(s): bodies with an `observed value` parameter (Option<Shared<V>>); recognised by type so that a
    # rename or a wrapper/inner split does not blind the rule
    def obs_param(b):
        for k in range(1, b.nargs + 1):
            if b.ty(k)["s"].startswith("std::option::Option<reclaim::Shared<"):
                return k
        return None

    def new_param(b):
        for k in range(1, b.nargs + 1):
            if b.ty(k)["s"] == "std::option::Option<V>":
                return k
        return None
    obs_bodies = [b for b in facts.bodies if b.kind != "Closure" and obs_param(b)]
    if not obs_bodies:
        ctx.fail_closed("N: no function with an observed-value parameter (Option<Shared<V>>) found")
        return
    obs_ids = {b.id: b for b in obs_bodies}
    # ---- N1
    for name, want in (("map::HashMap::retain", "Some"), ("map::HashMap::retain_force", "None")):
        b = facts.body(name)
        fl = flow(b)
        calls = [c for c in b.calls if c.resolved in obs_ids and not b.is_cleanup(c.b)]
        if not calls:
            ctx.fail_closed("N1: %s does not call a compare-and-remove routine (a function with an observed-value parameter)" % name)
        for c in calls:
            tb = obs_ids[c.resolved]
            newv = agg_variant(b, op_root(c.args[new_param(tb) - 1])) if new_param(tb) else [("None", None)]
            obs = agg_variant(b, op_root(c.args[obs_param(tb) - 1]))
            ok = [v for v, _ in newv] == ["None"] and [v for v, _ in obs] == [want]
            why = "new_value=%s observed_value=%s" % ([v for v, _ in newv], [v for v, _ in obs])
            if ok and want == "Some":
                data = obs[0][1]
                vl = op_root(data["rv"]["ops"][0])
                kl = op_root(c.args[1])
                vr = [x for x in fl.call_roots(vl) if x is not None]
                kr = [x for x in fl.call_roots(kl) if x is not None]
                same = bool(vr) and all(callee_str(x).endswith("Iter::next_internal") for x in vr) and {x.b for x in vr} == {x.b for x in kr}
                # and it is the value the predicate saw
                pred = [x for x in b.calls if user_closure_call(x)]
                seen_by_pred = False
                for p in pred:
                    for a in p.args:
                        al = op_root(a)
                        if al is not None and any(x is not None and x.b in {y.b for y in vr} for x in fl.call_roots(al)):
                            seen_by_pred = True
                ok = same and seen_by_pred
                why += "; observed pointer and key come from the same next_internal result: %s; predicate saw that value: %s" % (same, seen_by_pred)
            ctx.inst("N1", b, "replace_node(k, None, %s)" % want, c.span, ok, why)
        # ---- N3
        preds = [x for x in b.calls if user_closure_call(x) and not b.is_cleanup(x.b)]
        locks = regions(b)
        bad = [x for x in preds if held_regions_at(b, x.point)]
        ctx.inst("N3", b, "predicate under no lock", b.span, bool(preds) and not bad,
                 "%d predicate call(s), no lock region in this body" % len(preds) if preds and not bad else
                 ("predicate is called at %s while a lock is held" % bad[0].span if bad else "no predicate call found"))
    # ---- N2
    inner = [b for b in obs_bodies if [v for v in validated_regions(b) if bin_lock_region(v.region)]]
    # wrappers must hand their observation through unchanged
    for w in obs_bodies:
        if w in inner:
            continue
        for c in w.calls:
            if c.resolved in obs_ids and not w.is_cleanup(c.b):
                tb = obs_ids[c.resolved]
                al = op_root(c.args[obs_param(tb) - 1])
                ok = al is not None and flow(w).derives_from_arg(al, obs_param(w)) and not agg_variant(w, al)
                ctx.inst("N2", w, "observation passed through", c.span, ok, "wrapper forwards its observed value unchanged" if ok else
                         "wrapper %s does not forward the observed value it was given" % strip_generics(w.id))
    if not inner:
        ctx.fail_closed("N2: no compare-and-remove routine with bin-lock regions found")
        return
    rn = inner[0]
    OBS = obs_param(rn)
    fl = flow(rn)
    # the observation is what the caller saw: it is never overwritten inside the routine (a forwarded bin holds the very same value
    # pointers as the bin it was copied from, so nothing justifies forgetting it)
    redefs = [d for d in rn.defs.get(OBS, []) if d[1] != "arg"]
    ctx.inst("N2", rn, "the observation is not overwritten", rn.span_at(redefs[0][0]) if redefs else rn.span, not redefs,
             "the observed-value parameter has no assignment in the body" if not redefs else
             "the observed value is overwritten at %s: from then on the removal no longer depends on what the predicate saw "
             "(retain degenerates into retain_force on that path)" % rn.span_at(redefs[0][0]))
    muts = mutations(rn)
    vs = [v for v in validated_regions(rn) if bin_lock_region(v.region)]
    if len(vs) < 2:
        ctx.fail_closed("N2: expected two validated bin-lock regions in %s, found %d" % (strip_generics(rn.id), len(vs)))
    def stored_in_region(b, l, v):
        """local l derives from a Node.value load made inside the validated region v"""
        if l is None:
            return False
        for rc in flow(b).call_roots(l):
            if rc is not None and is_reclaim_atomic(rc) == "load" and ("node::Node", "value") in receiver_field(b, rc, 0) \
                    and rc.point in v.region.points and v.dominated_by_validation(rc.point):
                return True
        return False

    def bool_fn_permits(h, ko, ks):
        """summary of a crate function returning bool, called with (observed, stored) as parameters ko, ks: it returns true only when the
        observation is None or is pointer-identical to the stored value.  -> (ok, true_on_none)"""
        hf = flow(h)
        obs_l = hf.flows_to(ko)
        none_edges, eq_calls = [], []
        for blk in range(len(h.blocks)):
            cd = cond_of(h, blk)
            if cd and cd["kind"] == "is_none" and cd.get("arg") in obs_l:
                none_edges.append((blk, cd["true"]))
        ok, true_on_none = True, False
        defs = [d for d in h.defs.get(0, []) if d[1] in ("assign", "call")]
        if not defs:
            return False, False
        for pt, kind, data in defs:
            if kind == "call":
                c = data
                if is_ptr_cmp(c) == "eq":
                    from .analysis import ref_target
                    x, y = ref_target(h, c.args[0]), ref_target(h, c.args[1])
                    if (x in obs_l and hf.derives_from_arg(y, ks)) or (y in obs_l and hf.derives_from_arg(x, ks)):
                        continue
                ok = False
            else:
                rv = data["rv"]
                val = rv["use"].get("int") if "use" in rv else None
                if val == 0:
                    continue
                if val == 1:
                    if none_edges and dominated_by_edge(h, pt, none_edges):
                        true_on_none = True
                        continue
                    ok = False
                    continue
                # copy of a comparison result
                src = op_root(rv["use"]) if "use" in rv else None
                rcs = [x for x in hf.call_roots(src) if x is not None] if src is not None else []
                if rcs and all(is_ptr_cmp(x) == "eq" for x in rcs):
                    continue
                ok = False
        return ok, true_on_none

    for v in vs:
        r = v.region
        what = "removal in region %s" % r.call.span.split(":", 1)[1]
        obs_l = fl.flows_to(OBS)
        permits = []      # (edge, description, permits None?)
        problems = []
        for blk in sorted({p[0] for p in r.points}):
            cd = cond_of(rn, blk)
            if not cd:
                continue
            if cd["kind"] == "is_none" and cd.get("arg") in obs_l:
                permits.append(((blk, cd["true"]), "observation is None", True))
            elif cd["kind"] == "ptr_eq":
                a, b2 = cd.get("a"), cd.get("b")
                if (a in obs_l and stored_in_region(rn, b2, v)) or (b2 in obs_l and stored_in_region(rn, a, v)):
                    permits.append(((blk, cd["true"]), "observed pointer == stored pointer", False))
            elif cd["kind"] == "bool" and rn.ty(cd["local"])["s"] == "bool":
                # a named bool computed by `match observed { Some(ov) => ov == stored, None => true }` (or an if/else of that shape):
                # every definition is the identity comparison, `true` under `observation is None`, or `false`
                t = cd["local"]
                defs = [d for d in rn.defs.get(t, []) if d[1] in ("assign", "call")]
                okb, ton = bool(defs), False
                none_edges = []
                for blk2 in sorted({p[0] for p in r.points}):
                    cd2 = cond_of(rn, blk2)
                    if cd2 and cd2["kind"] == "is_none" and cd2.get("arg") in obs_l:
                        none_edges.append((blk2, cd2["true"]))
                for pt, kind, data in defs:
                    if pt not in r.points:
                        okb = False
                        break
                    if kind == "call":
                        from .analysis import ref_target
                        c2 = data
                        x, y = (ref_target(rn, c2.args[0]), ref_target(rn, c2.args[1])) if len(c2.args) >= 2 else (None, None)
                        if is_ptr_cmp(c2) == "eq" and ((x in obs_l and stored_in_region(rn, y, v)) or (y in obs_l and stored_in_region(rn, x, v))):
                            continue
                        okb = False
                    else:
                        val = data["rv"]["use"].get("int") if "use" in data["rv"] else None
                        if val == 0:
                            continue
                        if val == 1 and none_edges and dominated_by_edge(rn, pt, none_edges):
                            ton = True
                            continue
                        okb = False
                if okb:
                    permits.append(((blk, cd["true"]), "`%s` = observation is None or observed == stored" % (rn.local_name(t) or "_%d" % t), ton))
            elif cd["kind"] == "call":
                uc = cd["call"]
                tb = facts.by_id.get(uc.resolved)
                def closure_permit(mc, dflt, spelled):
                    """`mc` applies a closure to the observation: the closure is one pointer-identity comparison with a value stored in
                    this region"""
                    if not fl.derives_from_arg(op_root(mc.args[0]), OBS):
                        problems.append("the compared option is not the observed_value parameter")
                        return
                    cl = op_root(mc.args[1])
                    ch = rn.ty(cl)["head"] if cl is not None else ""
                    cb = facts.by_id.get(ch[len("closure:"):]) if ch.startswith("closure:") else None
                    ptr_eq = cb is not None and any(is_ptr_cmp(x) == "eq" for x in cb.calls) and len([x for x in cb.calls]) == 1
                    cap_ok = False
                    for kind, data, pt in fl.sources(cl):
                        if kind == "agg":
                            for o in data["rv"]["ops"]:
                                if stored_in_region(rn, op_root(o), v):
                                    cap_ok = True
                    if not ptr_eq:
                        problems.append("the comparison is not pointer identity of the two Shared values")
                    elif not cap_ok:
                        problems.append("the stored value is not loaded inside the validated lock region")
                    elif dflt not in (0, 1):
                        problems.append("the default for a missing observation is not a constant")
                    else:
                        permits.append(((blk, cd["true"]), spelled % bool(dflt), dflt == 1))
                if callee_str(uc).endswith("Option::unwrap_or"):
                    # observed_value.map(|ov| ov == stored).unwrap_or(default)
                    dflt = uc.args[1].get("int")
                    for mc in fl.call_roots(op_root(uc.args[0])):
                        if mc is None or not callee_str(mc).endswith("Option::map"):
                            continue
                        closure_permit(mc, dflt, "map(|ov| ov == stored).unwrap_or(%s)")
                elif callee_str(uc).endswith(("Option::is_none_or", "Option::is_some_and")) and len(uc.args) == 2:
                    # the same predicate by its library name: true / false for a missing observation
                    closure_permit(uc, 1 if callee_str(uc).endswith("is_none_or") else 0, callee_str(uc).rsplit("::", 1)[-1] + "(|ov| ov == stored) [None -> %s]")
                elif callee_str(uc).endswith("Option::map_or") and len(uc.args) == 3:
                    closure_permit(type("M", (), {"args": [uc.args[0], uc.args[2]]})(), uc.args[1].get("int"), "map_or(%s, |ov| ov == stored)")
                elif tb is not None and tb.ty(0)["s"] == "bool":
                    ko = ks = None
                    for k, a in enumerate(uc.args):
                        al = op_root(a)
                        if al in obs_l and tb.ty(k + 1)["s"].startswith("std::option::Option<reclaim::Shared<"):
                            ko = k + 1
                        elif stored_in_region(rn, al, v):
                            ks = k + 1
                    if ko and ks:
                        okf, ton = bool_fn_permits(tb, ko, ks)
                        if okf:
                            permits.append(((blk, cd["true"]), "%s(observed, stored)" % strip_generics(tb.id).rsplit("::", 1)[-1], ton))
                        else:
                            problems.append("%s can return true although the observation differs from the stored value" % strip_generics(tb.id))
        if not permits:
            ctx.inst("N2", rn, what, r.call.span, False,
                     "; ".join(problems) if problems else "no test `observation is None or observed pointer == stored pointer` in this lock region")
            continue
        if not any(p[2] for p in permits):
            problems.append("a missing observation does not lead to the removal (retain_force would never remove)")
        edges = [p[0] for p in permits]
        guarded = 0
        for m, d in muts.items():
            if m in r.points and d != "user closure":
                guarded += 1
                if not dominated_by_edge(rn, m, edges):
                    problems.append("%s at %s is not guarded by the identity test" % (d, rn.span_at(m)))
        ctx.inst("N2", rn, what, rn.term(permits[0][0][0])["span"], not problems,
                 "%d mutation(s) in the region, all behind: %s" % (guarded, "; ".join(sorted({p[1] for p in permits}))) if not problems else "; ".join(problems)[:400])
