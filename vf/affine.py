"""Affine (Karr-style) symbolic forms over MIR integer locals: value = sum(coeff * symbol) + const, rational coefficients.
Symbols: ('call', block) results of opaque calls (atomic RMW/loads, len(), next_power_of_two, min/max, abs),
('arg', k) parameters, ('phi', local) locals with several definitions, ('opaque', point)."""
from fractions import Fraction

from .analysis import flow
from .facts import strip_generics, op_local, op_place, op_int, op_root, Point

TOP = None


class Aff:
    __slots__ = ("terms", "c")

    def __init__(self, terms=None, c=0):
        self.terms = {k: Fraction(v) for k, v in (terms or {}).items() if v != 0}
        self.c = Fraction(c)

    @staticmethod
    def const(c):
        return Aff({}, c)

    @staticmethod
    def sym(s):
        return Aff({s: 1}, 0)

    def __add__(self, o):
        t = dict(self.terms)
        for k, v in o.terms.items():
            t[k] = t.get(k, 0) + v
        return Aff(t, self.c + o.c)

    def __sub__(self, o):
        return self + o.scale(-1)

    def scale(self, f):
        return Aff({k: v * f for k, v in self.terms.items()}, self.c * f)

    def is_const(self):
        return not self.terms

    def __eq__(self, o):
        return isinstance(o, Aff) and self.terms == o.terms and self.c == o.c

    def __hash__(self):
        return hash((tuple(sorted(self.terms.items(), key=repr)), self.c))

    def symbols(self):
        return set(self.terms)

    def coeff(self, s):
        return self.terms.get(s, Fraction(0))

    def subst(self, s, aff):
        if s not in self.terms:
            return self
        k = self.terms[s]
        rest = Aff({a: b for a, b in self.terms.items() if a != s}, self.c)
        return rest + aff.scale(k)

    def show(self, body=None):
        parts = []
        for k, v in sorted(self.terms.items(), key=repr):
            name = sym_name(k, body)
            if v == 1:
                parts.append(name)
            elif v == -1:
                parts.append("-" + name)
            else:
                parts.append("%s*%s" % (v, name))
        if self.c != 0 or not parts:
            parts.append(str(self.c))
        return " + ".join(parts).replace("+ -", "- ")


def sym_name(k, body=None):
    if k[0] == "call" and body is not None:
        c = body.call_at(k[1])
        if c is not None:
            nm = (c.path or "call").split("::")[-1]
            return "%s@%s" % (nm, c.span.rsplit(":", 2)[-2])
    if k[0] == "arg" and body is not None:
        return body.local_name(k[1]) or "arg%d" % k[1]
    if k[0] == "phi" and body is not None:
        return "%s*" % (body.local_name(k[1]) or "_%d" % k[1])
    if k[0] == "place" and body is not None:
        return "%s.%s" % (body.local_name(k[1]) or "_%d" % k[1], ".".join(k[2]))
    if k[0] == "shr":
        return "floor((%s) / 2^%d)" % (" + ".join("%s*%s" % (v, n) for n, v in k[1][0]) + (" + " + k[1][1] if k[1][1] != "0" else ""), k[2])
    return repr(k)


BOX_NOISE = {("0", "Box"), ("pointer", "Unique"), ("pointer", "NonNull")}


def canon_place(body, place, depth=0):
    """(root local, field-name tuple) of a place, looking through references, copies, casts and Box/NonNull plumbing"""
    fields = []
    for e in place["proj"]:
        if isinstance(e, dict) and "field" in e:
            of = e["of"].rsplit("::", 1)[-1]
            if (e["name"], of) in BOX_NOISE:
                continue
            fields.append(e["name"])
    root = place["local"]
    if depth < 14:
        srcs = [x for x in flow(body).sources(root) if x[0] != "partial"]
        if len(srcs) == 1:
            kind, data, pt = srcs[0]
            if kind in ("ref", "field"):
                r, f = canon_place(body, data, depth + 1)
                return r, f + tuple(fields)
            if kind == "copy":
                r, f = canon_place(body, {"local": data, "proj": []}, depth + 1)
                return r, f + tuple(fields)
            if kind == "view":
                r, f = canon_place(body, {"local": data[1], "proj": []}, depth + 1)
                return r, f + tuple(fields)
    return root, tuple(fields)


def floor_shift(a, k):
    """exact form of floor(a / 2^k) over the integers: constants are folded, common factors of two are cancelled, and what remains is an
    opaque symbol ('shr', canonical key of a, k) -- so n - (n >> 2) and (3n) >> 2, equal over the rationals, are different forms"""
    k = int(k)
    if a.is_const() and a.c.denominator == 1:
        return Aff.const(int(a.c) >> k)
    while k > 0 and a.c.denominator == 1 and int(a.c) % 2 == 0 and all(v.denominator == 1 and int(v) % 2 == 0 for v in a.terms.values()):
        a = a.scale(Fraction(1, 2))
        k -= 1
    if k == 0:
        return a
    key = (tuple(sorted(((repr(s), str(v)) for s, v in a.terms.items()))), str(a.c))
    return Aff.sym(("shr", key, k))


class Evaluator:
    def __init__(self, body, exact_shifts=False):
        self.body = body
        self.cache = {}
        self.exact_shifts = exact_shifts

    def operand(self, op, depth=0):
        if "const" in op:
            if "int" in op:
                return Aff.const(op["int"])
            if "promoted" in op:
                for p in self.body.raw.get("promoted", []):
                    if p["idx"] == op["promoted"] and len(p["consts"]) == 1 and "int" in p["consts"][0]:
                        return Aff.const(p["consts"][0]["int"])
            return TOP
        p = op_place(op)
        if p is None:
            return TOP
        if not p["proj"]:
            return self.local(p["local"], depth)
        # payload of an Option / Result: (x as Some).0, (x as Ok).0
        if len(p["proj"]) == 2 and isinstance(p["proj"][0], dict) and p["proj"][0].get("downcast") in ("Some", "Ok") \
                and isinstance(p["proj"][1], dict) and p["proj"][1].get("field") == 0:
            r0 = self.payload(p["local"], depth + 1)
            if r0 is not TOP:
                return r0
        # tuple field of a checked arithmetic result: (x op y).0
        fields = [e for e in p["proj"] if isinstance(e, dict) and "field" in e]
        if len(p["proj"]) == 1 and fields and fields[0]["field"] == 0 and fields[0]["of"] == "tuple":
            return self.local(p["local"], depth, tuple_field=0)
        if p["proj"] == ["deref"]:
            # *&x through a single-def reference
            srcs = flow(self.body).sources(p["local"])
            if len(srcs) == 1 and srcs[0][0] == "ref" and not srcs[0][1]["proj"]:
                return self.local(srcs[0][1]["local"], depth)
            if len(srcs) == 1 and srcs[0][0] == "const" and "promoted" in srcs[0][1]:
                return self.operand(srcs[0][1], depth)
            if len(srcs) == 1 and srcs[0][0] == "ref" and srcs[0][1]["proj"] == ["deref"]:
                return self.operand({"copy": {"local": srcs[0][1]["local"], "proj": ["deref"]}}, depth + 1)
        # a field of some object: symbolic, canonicalised through references / Box plumbing
        r, f = canon_place(self.body, p)
        if f:
            return Aff.sym(("place", r, f))
        return TOP

    def local(self, l, depth=0, tuple_field=None, at=None):
        """form of local l (at its unique definition; locals with several definitions become ('phi', l) unless `at` selects one)"""
        key = (l, tuple_field, at)
        if key in self.cache:
            return self.cache[key]
        if depth > 40:
            return TOP
        body = self.body
        defs = [d for d in body.defs.get(l, []) if d[1] in ("assign", "call", "arg")]
        if at is not None:
            defs = [d for d in defs if d[0] == at]
        r = TOP
        if len(defs) == 1:
            r = self.from_def(l, defs[0], depth, tuple_field)
        elif len(defs) > 1:
            r = Aff.sym(("phi", l))
        self.cache[key] = r
        return r

    def from_def(self, l, d, depth, tuple_field=None):
        pt, kind, data = d
        body = self.body
        if kind == "arg":
            return Aff.sym(("arg", data))
        if kind == "call":
            cal = getattr(data, "callee", None) or {}
            d = cal.get("def", "")
            if d.endswith("mem::size_of") or d.endswith("mem::align_of"):
                # a pure function of its type argument: every call with the same type is the same value
                return Aff.sym((d.rsplit("::", 1)[-1], tuple(cal.get("substs", []))))
            nm = cal.get("name", "")
            args = getattr(data, "args", [])
            if nm in ("expect", "unwrap", "unwrap_unchecked") and args and strip_generics(d).rsplit("::", 2)[-2:-1] in (["Option"], ["Result"]):
                # the payload of a checked conversion / checked arithmetic: `usize::try_from(n).expect(..)`, `a.checked_add(b).unwrap()`
                l0 = op_root(args[0])
                r0 = self.payload(l0, depth + 1) if l0 is not None else TOP
                if r0 is not TOP:
                    return r0
            if nm in ("from", "into") and len(args) == 1 and self._is_int(l) and op_root(args[0]) is not None and self._is_int(op_root(args[0])):
                return self.operand(args[0], depth + 1)       # lossless integer conversion
            if nm in ("wrapping_add", "wrapping_sub", "saturating_add", "saturating_sub") and len(args) == 2 and self._is_int(l):
                # equal to the plain operation wherever that does not overflow -- which the build's overflow checks assume of `+` as well
                a, b = self.operand(args[0], depth + 1), self.operand(args[1], depth + 1)
                if a is not TOP and b is not TOP:
                    return a + b if nm.endswith("add") else a - b
            return Aff.sym(("call", pt[0]))
        rv = data["rv"]
        if "use" in rv:
            return self.operand(rv["use"], depth + 1)
        if "cast" in rv:
            return self.operand(rv["cast"], depth + 1)
        if "bin" in rv:
            op = rv["bin"]
            a = self.operand(rv["a"], depth + 1)
            b = self.operand(rv["b"], depth + 1)
            base = op.replace("WithOverflow", "").replace("Unchecked", "")
            if op.endswith("WithOverflow") and tuple_field != 0:
                return TOP
            if a is TOP or b is TOP:
                return TOP
            if base == "Add":
                return a + b
            if base == "Sub":
                return a - b
            if base == "Mul":
                if b.is_const():
                    return a.scale(b.c)
                if a.is_const():
                    return b.scale(a.c)
                return TOP
            if base == "Shl" and b.is_const():
                return a.scale(Fraction(2) ** int(b.c))
            if base == "Shr" and b.is_const():
                if self.exact_shifts:
                    return floor_shift(a, b.c)
                return a.scale(Fraction(1, 2 ** int(b.c)))
            if base == "Div" and b.is_const() and b.c != 0:
                if self.exact_shifts:
                    d = int(b.c) if b.c.denominator == 1 else 0
                    if d > 0 and d & (d - 1) == 0:
                        return floor_shift(a, d.bit_length() - 1)
                    return TOP
                return a.scale(Fraction(1) / b.c)
            if base in ("BitOr", "BitAnd", "BitXor") and a.is_const() and b.is_const() and a.c.denominator == 1 and b.c.denominator == 1:
                x, y = int(a.c), int(b.c)
                return Aff.const({"BitOr": x | y, "BitAnd": x & y, "BitXor": x ^ y}[base])
            return TOP
        if "un" in rv and rv["un"] == "Neg":
            a = self.operand(rv["a"], depth + 1)
            return a.scale(-1) if a is not TOP else TOP
        if "un" in rv and rv["un"] == "Not":
            # two's complement: !x == -x - 1 (integers only; a bool operand has no affine form and stays TOP)
            a = self.operand(rv["a"], depth + 1)
            ty = self.body.locals[l].get("ty", "") if l < len(self.body.locals) else ""
            if a is not TOP and ty != "bool":
                return a.scale(-1) - Aff.const(1)
        return TOP

    def _is_int(self, l):
        t = self.body.ty(l).get("s", "") if l is not None and l < len(self.body.locals) else ""
        return t in ("usize", "isize", "u8", "u16", "u32", "u64", "u128", "i8", "i16", "i32", "i64", "i128")

    def payload(self, l, depth=0):
        """form of the value inside an Option / Result local when every definition that carries one agrees: Some(v) / Ok(v) aggregates,
        integer `try_from` / `try_into` (value-preserving when they succeed), `checked_add/sub/mul` (the plain result when they succeed),
        and `and_then` / `map` with a closure of the crate (its result form with the parameter substituted)"""
        if depth > 30 or l is None:
            return TOP
        key = ("payload", l)
        if key in self.cache:
            return self.cache[key]
        self.cache[key] = TOP
        body = self.body
        forms = []
        for d in [d for d in body.defs.get(l, []) if d[1] in ("assign", "call", "arg")]:
            pt, kind, data = d
            f = TOP
            if kind == "assign":
                rv = data["rv"]
                if "agg" in rv and rv["agg"].get("variant") in ("Some", "Ok") and rv["ops"]:
                    f = self.operand(rv["ops"][0], depth + 1)
                elif "agg" in rv and rv["agg"].get("variant") in ("None", "Err"):
                    continue
                elif "use" in rv and op_place(rv["use"]) is not None and not op_place(rv["use"])["proj"]:
                    f = self.payload(op_place(rv["use"])["local"], depth + 1)
            elif kind == "call":
                cal = getattr(data, "callee", None) or {}
                nm = cal.get("name", "")
                args = data.args
                if nm in ("try_from", "try_into") and len(args) == 1:
                    f = self.operand(args[0], depth + 1)
                elif nm in ("checked_add", "checked_sub", "checked_mul") and len(args) == 2:
                    a, b = self.operand(args[0], depth + 1), self.operand(args[1], depth + 1)
                    if a is not TOP and b is not TOP:
                        if nm == "checked_add":
                            f = a + b
                        elif nm == "checked_sub":
                            f = a - b
                        elif b.is_const():
                            f = a.scale(b.c)
                        elif a.is_const():
                            f = b.scale(a.c)
                elif nm in ("checked_shl", "checked_shr") and len(args) == 2:
                    a, b = self.operand(args[0], depth + 1), self.operand(args[1], depth + 1)
                    if a is not TOP and b is not TOP and b.is_const():
                        f = a.scale(Fraction(2) ** int(b.c)) if nm == "checked_shl" else (
                            floor_shift(a, b.c) if self.exact_shifts else a.scale(Fraction(1, 2 ** int(b.c))))
                elif nm in ("and_then", "map") and len(args) == 2 and strip_generics(cal.get("def", "")).rsplit("::", 2)[-2:-1] in (["Option"], ["Result"]):
                    inner = self.payload(op_root(args[0]), depth + 1) if op_root(args[0]) is not None else TOP
                    cl = op_root(args[1])
                    ch = body.ty(cl).get("head", "") if cl is not None else ""
                    cb = body.facts.by_id.get(ch[len("closure:"):]) if ch.startswith("closure:") and getattr(body, "facts", None) else None
                    if inner is not TOP and cb is not None and cb.nargs == 2:
                        ev2 = type(self)(cb, self.exact_shifts)
                        g = ev2.payload(0, depth + 1) if nm == "and_then" else ev2.local(0, depth + 1)
                        if g is not TOP and all(s0 == ("arg", 2) for s0 in g.symbols()):
                            f = g.subst(("arg", 2), inner) if g.symbols() else g
                elif nm in ("ok", "copied", "cloned") and len(args) == 1:
                    f = self.payload(op_root(args[0]), depth + 1) if op_root(args[0]) is not None else TOP
            forms.append(f)
        r = TOP
        if forms and all(f is not TOP for f in forms) and len({f for f in forms}) == 1:
            r = forms[0]
        self.cache[key] = r
        return r

    def def_forms(self, l):
        """[(def point, form)] for every whole definition of l"""
        out = []
        for d in self.body.defs.get(l, []):
            if d[1] in ("assign", "call", "arg"):
                out.append((d[0], self.from_def(l, d, 0)))
        return out


def evaluator(body):
    e = getattr(body, "_aff", None)
    if e is None:
        e = Evaluator(body)
        body._aff = e
    return e


def evaluator_exact(body):
    """like evaluator(), but x >> k and x / 2^k are floor terms, not rational divisions"""
    e = getattr(body, "_aff_exact", None)
    if e is None:
        e = Evaluator(body, exact_shifts=True)
        body._aff_exact = e
    return e


# ------------------------------------------------------------------------------------------
# linear facts established by the comparisons that dominate a point (operator- and side-independent)

_REL = {  # a REL b, as facts about lin = a - b over the integers: list of (sign, bound) meaning sign*lin <= bound; 'ne' separately
    "Lt": [(1, -1)], "Le": [(1, 0)], "Gt": [(-1, -1)], "Ge": [(-1, 0)], "Eq": [(1, 0), (-1, 0)], "Ne": "ne",
}
_NEG = {"Lt": "Ge", "Le": "Gt", "Gt": "Le", "Ge": "Lt", "Eq": "Ne", "Ne": "Eq"}


def _deref_local(body, op):
    """x for an operand that is `&x` (through copies)"""
    l = op_root(op)
    fl = flow(body)
    return fl._ref_of_local(l) if l is not None else None


def _array_elems(body, op):
    """operands of the array literal an operand (a `&[T]` obtained from `&[a, b, ..]`) refers to"""
    l = op_root(op)
    seen = set()
    while l is not None and l not in seen and len(seen) < 8:
        seen.add(l)
        ds = [d for d in body.defs.get(l, []) if d[1] in ("assign", "call", "arg")]
        if len(ds) != 1 or ds[0][1] != "assign":
            return None
        rv = ds[0][2]["rv"]
        if "agg" in rv and ("array" in rv["agg"] or rv["agg"].get("kind") == "array" or "Array" in str(rv["agg"])):
            return rv["ops"]
        nxt = None
        for key in ("use", "cast"):
            if key in rv:
                nxt = op_root(rv[key])
        if "ref" in rv and not [e for e in rv["ref"]["proj"] if e != "deref"]:
            nxt = rv["ref"]["local"]
        l = nxt
    return None


def branch_facts(body):
    """[(block, target, kind, lin, bound)]: taking the edge block->target establishes  lin <= bound  (kind 'le') or lin != 0 (kind 'ne')"""
    bf = getattr(body, "_branch_facts", None)
    if bf is not None:
        return bf
    from .analysis import cond_of
    ev = evaluator(body)
    bf = []
    for blk in range(len(body.blocks)):
        cd = cond_of(body, blk)
        if cd and cd["kind"] == "call" and cd.get("call") is not None and getattr(cd["call"], "name", "") == "contains" and len(cd["call"].args) == 2:
            # `[a, b].contains(&x)`: on the false edge x differs from every element
            elems = _array_elems(body, cd["call"].args[0])
            xl = _deref_local(body, cd["call"].args[1])
            if elems and xl is not None:
                fx = ev.local(xl)
                for e in elems:
                    fe = ev.operand(e)
                    if fx is not TOP and fe is not TOP:
                        bf.append((blk, cd["false"], "ne", fx - fe, None))
            continue
        if not cd or cd["kind"] != "cmp" or cd["op"] not in _REL:
            continue
        a, b = ev.operand(cd["a"]), ev.operand(cd["b"])
        if a is TOP or b is TOP:
            continue
        lin = a - b
        for tgt, op in ((cd["true"], cd["op"]), (cd["false"], _NEG[cd["op"]])):
            r = _REL[op]
            if r == "ne":
                bf.append((blk, tgt, "ne", lin, None))
            else:
                for sign, bound in r:
                    bf.append((blk, tgt, "le", lin.scale(sign), Fraction(bound)))
    body._branch_facts = bf
    return bf


def facts_at(body, pt):
    """the branch facts whose edge dominates pt"""
    from .analysis import dominated_by_edge
    out = []
    cache = {}
    for blk, tgt, kind, lin, bound in branch_facts(body):
        k = (blk, tgt)
        if k not in cache:
            cache[k] = dominated_by_edge(body, pt, [k])
        if cache[k]:
            out.append((kind, lin, bound, blk))
    return out


def le_at(body, pt, lin, bound):
    """does  lin <= bound  hold whenever pt executes (by one dominating comparison)?  returns the deciding block or None"""
    for kind, l2, b2, blk in facts_at(body, pt):
        if kind != "le":
            continue
        d = l2 - lin
        if d.is_const() and b2 - d.c <= bound:
            return blk
    return None


def ne0_at(body, pt, lin):
    """does lin != 0 hold at pt (lin != 0, lin <= -1 or lin >= 1 by one dominating comparison)?"""
    for kind, l2, b2, blk in facts_at(body, pt):
        if kind == "ne" and (l2 == lin or l2 == lin.scale(-1)):
            return blk
        if kind == "le":
            for s in (1, -1):
                d = l2 - lin.scale(s)
                if d.is_const() and b2 - d.c <= -1:
                    return blk
    return None


def const_val(body, op):
    """integer value of an operand when it is a constant, possibly reached through locals (`let zero = 0; store(zero)`); else None"""
    if op is None:
        return None
    if "int" in op:
        return op["int"]
    f = evaluator(body).operand(op)
    if f is not TOP and f.is_const() and f.c.denominator == 1:
        return int(f.c)
    return None
