"""C09 -- every guard-taking operation rejects guards of a foreign collector.
G1 check dominates use (summary fixpoint) / G2 carriers / G3 the check is a check / G4 own guards."""
from .analysis import flow, dominates, reach, after, entry, cond_of, is_view
from .facts import op_root, op_local, place_fields, strip_generics, Point

PROP = "C09"
LEVEL = "other"
EXPLANATION = (
    "Whole-property static decision. For every body the guard-typed values are grouped by their source (a `&Guard` "
    "parameter, a guard-typed struct field, a closure capture); every use of such a value must be the guard check "
    "itself, be dominated by a guard check against the receiver, or be an argument of a function already proven safe "
    "for that parameter (least fixpoint over the call graph). Exported functions with a guard parameter must be safe; "
    "structs that can be built around an unchecked guard must only hand it to safe functions. The check function is "
    "recognised by shape (compares guard.collector() with self.collector through Collector::ptr_eq and panics on "
    "inequality), so renaming it does not blind the rule and weakening it is itself reported.")

GUARD_BASES = ("seize::Guard", "reclaim::GuardRef", "seize::guard::Guard")


def is_guard_ty(t):
    return t.get("base") in GUARD_BASES


def guard_field_table(facts):
    """(adt, field) -> True for struct/enum fields whose declared type mentions a Guard"""
    out = set()
    for adt, d in facts.adts.items():
        for v in d["variants"]:
            for name, ty in v["fields"]:
                if "seize::Guard" in ty or "GuardRef" in ty:
                    out.add((adt, name))
    return out


def panic_call(c):
    d = c.def_ or ""
    return d.startswith("core::panicking::") or d.startswith("std::rt::begin_panic") or "panic_fmt" in d or d.endswith("::panic")


def check_shapes(b):
    """occurrences, in any body, of  if let Some(c) = g.collector() { assert!(Collector::ptr_eq(c, &self.collector)) }
    -> (ok, why, [collector() calls that feed an accepted comparison])"""
    cols = b.calls_to("seize::Guard::collector", "Guard::collector")
    peq = b.calls_to("seize::Collector::ptr_eq", "Collector::ptr_eq")
    if not cols or not peq or b.nargs < 2:
        return None
    cached = getattr(b, "_check_shapes", None)
    if cached is not None:
        return cached
    fl = flow(b)
    ok = False
    why = "no ptr_eq of guard.collector() with self.collector"
    good_cols = []
    for pe in peq:
        a0, a1 = pe.arg_local(0), pe.arg_local(1)
        if a0 is None or a1 is None:
            continue
        sides = []
        feeding = []
        for a in (a0, a1):
            roots, locs = fl.roots(a)
            fc = [b.call_at(r[1]) for r in roots if r[0] == "call" and b.call_at(r[1]) is not None
                  and (b.call_at(r[1]) in cols or b.call_at(r[1]).is_("Guard::collector"))]
            feeding += fc
            fields = fl.ref_fields(a)
            from_self_field = any(base_is_arg(fl, base, 1) and fs and fs[-1][1] == "collector" for base, fs in fields)
            sides.append((bool(fc), from_self_field))
        paired = (sides[0][0] and sides[1][1]) or (sides[1][0] and sides[0][1])
        if not paired:
            continue
        # result tested; false edge must reach a panic, true edge must not be forced to
        tested = False
        for blk in range(len(b.blocks)):
            c = cond_of(b, blk)
            if c and c["kind"] == "call" and c["call"].b == pe.b:
                tested = True
                false_reach = reach(b, [Point(c["false"], 0)])
                # a panic that only exists under debug_assert*! is compiled out of release builds: it rejects nothing there
                pcs = [x for x in b.calls if panic_call(x) and x.point in false_reach]
                panics_false = any(not any(m.rsplit("::", 1)[-1].startswith("debug_assert") for m in x.macro) for x in pcs)
                if pcs and not panics_false:
                    why = "the inequality edge panics only under debug_assert!: release builds accept the foreign guard"
                    continue
                rets_false = any(b.term(p[0])["k"] == "return" and p[1] == b.nstmts(p[0]) for p in false_reach)
                if panics_false and not rets_false:
                    ok = True
                    good_cols += feeding
                else:
                    why = "inequality edge of ptr_eq does not end in a panic (returns normally: %s)" % rets_false
        if not tested:
            why = "ptr_eq result is not tested"
    b._check_shapes = (ok, why, good_cols)
    return b._check_shapes


def find_guard_checks(facts):
    """G3: bodies of the shape  if let Some(c) = g.collector() { assert!(Collector::ptr_eq(c, &self.collector)) }"""
    found = []
    for b in facts.bodies:
        sh = check_shapes(b)
        if sh is None:
            continue
        ok, why, good_cols = sh
        cols = b.calls_to("seize::Guard::collector", "Guard::collector")
        fl = flow(b)
        # which params: guard = the arg whose collector() is taken; map = arg 1
        gk = None
        for c in cols:
            l = c.arg_local(0)
            if l is not None:
                for k in range(1, b.nargs + 1):
                    if fl.derives_from_arg(l, k) and is_guard_ty(b.ty(k)):
                        gk = k
        found.append(dict(body=b, ok=ok, why=why, guard_param=gk, map_param=1))
    return found


def base_is_arg(fl, local, k):
    return fl.derives_from_arg(local, k)


class GuardAnalysis:
    def __init__(self, facts, checks):
        self.facts = facts
        self.check_ids = {c["body"].id: c for c in checks if c["ok"]}
        self.gfields = guard_field_table(facts)
        self.safe = set()          # (body id, source)
        self.always = set()        # (body id, param): every normal return is preceded by a guard check of that parameter
        self.sources = {}          # body id -> {source: set(locals)}
        self.uses = {}             # (body id, source) -> list of use dicts
        self.unchecked_carriers = {}   # (adt, field) -> construction sites not dominated by a check
        self._collect()

    # -- sources -----------------------------------------------------------------------
    def _collect(self):
        for b in self.facts.bodies:
            fl = flow(b)
            srcs = {}
            for k in range(1, b.nargs + 1):
                if is_guard_ty(b.ty(k)):
                    srcs[("arg", k)] = fl.flows_to(k)
            # field reads / closure upvars of guard type
            for bi, blk in enumerate(b.blocks):
                for st in blk["stmts"]:
                    if st["k"] != "assign":
                        continue
                    rv = st["rv"]
                    p = rv.get("ref") or (rv.get("use") and (rv["use"].get("copy") or rv["use"].get("move")))
                    if not p:
                        continue
                    fs = place_fields(p)
                    if not fs:
                        continue
                    dst = st["dst"]["local"]
                    last = fs[-1]
                    if last in self.gfields or (last[0].startswith("closure:") and is_guard_ty(b.ty(dst))):
                        # a parameter-derived guard re-read through its own struct is still that source
                        key = ("field", last[0], last[1])
                        srcs.setdefault(key, set()).update(fl.flows_to(dst))
            # keep guard-typed locals only (plus aggregates/closures that capture them)
            self.sources[b.id] = srcs

    def is_check_call(self, c):
        r = c.resolved
        return r in self.check_ids

    # -- uses --------------------------------------------------------------------------
    def compute_uses(self, b, src, locs):
        fl = flow(b)
        uses = []
        checks = []
        inline = check_shapes(b)
        for c in b.calls:
            if b.is_cleanup(c.b):
                continue
            for k, a in enumerate(c.args):
                r = op_root(a)
                if r is None or r not in locs:
                    continue
                if not is_guard_ty(b.ty(r)):
                    continue  # moving a closure / struct that wraps the guard is not a use; reading its field is
                if self.is_check_call(c):
                    ci = self.check_ids[c.resolved]
                    if ci["guard_param"] == k + 1:
                        checks.append(("direct", c, k + 1))
                    continue
                if k == 0 and inline is not None and inline[0] and c.point in {x.point for x in inline[2]}:
                    # the comparison written out in place: guard.collector() feeding an accepted ptr_eq-or-panic against self.collector
                    checks.append(("direct", c, 1))
                    continue
                if is_view(c) and k == 0:
                    continue
                uses.append(dict(kind="call", call=c, pos=k + 1, point=c.point))
                checks.append(("via", c, k + 1))
        # aggregates holding the guard: closures and carrier structs
        for bi, blk in enumerate(b.blocks):
            if blk["cleanup"]:
                continue
            for si, st in enumerate(blk["stmts"]):
                if st["k"] != "assign" or "agg" not in st["rv"]:
                    continue
                agg = st["rv"]["agg"]
                for oi, o in enumerate(st["rv"]["ops"]):
                    r = op_root(o)
                    if r is None or r not in locs or not (is_guard_ty(b.ty(r)) or self._captures_guard(b, r)):
                        continue
                    if "closure" in agg:
                        uses.append(dict(kind="closure", closure=agg["closure"], upvar=oi, point=Point(bi, si), span=st["span"]))
                    elif "adt" in agg:
                        fname = agg["fields"][oi] if oi < len(agg.get("fields", [])) else str(oi)
                        uses.append(dict(kind="carrier", adt=agg["adt"], field=fname, point=Point(bi, si), span=st["span"]))
        return uses, checks

    def _captures_guard(self, b, l):
        """aggregate / closure locals that wrap a guard are followed too"""
        t = b.ty(l)
        return t["head"].startswith("closure:") or any(adt == t["base"] for adt, _ in self.gfields)

    def use_ok(self, b, u, checks, src):
        # dominated by a guard check of the same guard value
        for how, c, pos in checks:
            if how == "via" and (c.resolved, pos) not in self.always:
                continue
            if c.point != u["point"] and dominates(b, c.point, u["point"]):
                return True, "dominated by guard check at %s%s" % (c.span, "" if how == "direct" else " (inside %s)" % strip_generics(c.resolved))
        if u["kind"] == "call":
            c = u["call"]
            tgt = c.resolved
            tb = self.facts.by_id.get(tgt)
            if tb is not None:
                if (tb.id, ("arg", u["pos"])) in self.safe:
                    return True, "callee %s is safe for parameter %d" % (strip_generics(tb.id), u["pos"])
                return False, "passes the guard to %s, which uses parameter %d without a guard check" % (strip_generics(tb.id), u["pos"])
            return False, "raw use of the guard by %s" % (c.path,)
        if u["kind"] == "closure":
            cb = self.facts.by_id.get(u["closure"])
            if cb is None:
                return False, "closure body %s not found" % u["closure"]
            # every guard source inside the closure that is an upvar must be safe
            ok = True
            for s in self.sources.get(cb.id, {}):
                if s[0] == "field" and s[1].startswith("closure:"):
                    if (cb.id, s) not in self.safe:
                        ok = False
            return ok, "closure %s %s" % (strip_generics(cb.id), "only passes the guard to safe functions" if ok else "uses the captured guard without a check")
        if u["kind"] == "carrier":
            # copying a carrier (Clone, a rebuilt iterator): the guard comes out of a field of the same carrier type, where it was put by
            # a construction that is judged itself -- by induction over the constructions, nothing unchecked enters this way
            if src[0] == "field" and (src[1], src[2]) == (u["adt"], u["field"]):
                return True, "copy of a %s: its guard was judged where the original was built" % u["adt"]
            # a struct built around an unchecked guard is fine iff every reader of that field is safe (G2)
            bad = self.unsafe_readers(u["adt"], u["field"])
            self.unchecked_carriers.setdefault((u["adt"], u["field"]), []).append((b, u))
            if bad:
                return False, "builds %s around an unchecked guard, and %s reads that field without a check" % (
                    u["adt"], ", ".join(sorted(strip_generics(x) for x in bad))[:300])
            return True, "carrier %s: every reader of .%s is safe" % (u["adt"], u["field"])
        return False, "unknown use"

    def readers(self, adt, field):
        out = []
        for b in self.facts.bodies:
            for src in self.sources[b.id]:
                if src[0] == "field" and src[1] == adt and src[2] == field:
                    out.append((b, src))
        return out

    def unsafe_readers(self, adt, field):
        return [b.id for b, src in self.readers(adt, field) if (b.id, src) not in self.safe]

    def solve(self):
        # least fixpoint: start with nothing safe
        all_items = []
        for b in self.facts.bodies:
            for src, locs in self.sources[b.id].items():
                uses, checks = self.compute_uses(b, src, locs)
                self.uses[(b.id, src)] = (uses, checks)
                all_items.append((b, src))
        changed = True
        while changed:
            changed = False
            for b, src in all_items:
                if (b.id, src) in self.safe:
                    continue
                uses, checks = self.uses[(b.id, src)]
                self.unchecked_carriers_backup = None
                if all(self.use_ok(b, u, checks, src)[0] for u in uses):
                    self.safe.add((b.id, src))
                    changed = True
            # functions that always check before returning act as checks for their callers
            for b, src in all_items:
                if src[0] != "arg" or (b.id, src[1]) in self.always:
                    continue
                uses, checks = self.uses[(b.id, src)]
                cps = {c.point for how, c, pos in checks if how == "direct" or (c.resolved, pos) in self.always}
                if not cps:
                    continue
                from .analysis import return_points
                r = reach(b, [entry(b)], avoid=cps)
                if not any(rp in r for rp in return_points(b)):
                    self.always.add((b.id, src[1]))
                    changed = True
        # recompute carrier table once, after the fixpoint (constructions not dominated by a check)
        self.unchecked_carriers = {}
        for b, src in all_items:
            uses, checks = self.uses[(b.id, src)]
            for u in uses:
                self.use_ok(b, u, checks, src)
        for k in list(self.unchecked_carriers):
            seen = set()
            self.unchecked_carriers[k] = [x for x in self.unchecked_carriers[k] if not (id(x[1]) in seen or seen.add(id(x[1])))]


def run(ctx, facts):
    ctx.rule("G3", "the guard check compares guard.collector() with self.collector via Collector::ptr_eq and panics on inequality", floor=1,
             floor_note="HashMap::check_guard")
    ctx.rule("G1", "every exported function with a &Guard parameter uses it only after/through a guard check (least fixpoint over callees)",
             floor=25, floor_note="16 HashMap + 13 HashSet guard-taking methods on the pinned tree, counted 2026-10")
    ctx.rule("G2", "a struct that can be built around an unchecked guard hands that field only to safe functions", floor=15,
             floor_note="HashMapRef/HashSetRef methods")
    checks = find_guard_checks(facts)
    for c in checks:
        ctx.inst("G3", c["body"], "guard-check shape", c["body"].span, c["ok"], c["why"] if not c["ok"] else
                 "ptr_eq(guard.collector(), self.collector); inequality edge reaches only a panic; None (unprotected) is the only bypass")
    if not any(c["ok"] for c in checks):
        ctx.fail_closed("no function of the guard-check shape found (anchor 'guard check')") if not checks else None
    ga = GuardAnalysis(facts, checks)
    ga.solve()
    # G1: exported functions.  A violation is reported at its root: the exported function whose own unchecked use is raw
    # or goes to a non-exported callee; exported wrappers that merely delegate to such a function are listed with it.
    unsafe_exported = set()
    for b in facts.bodies:
        if b.exported and b.kind != "Closure":
            for src in ga.sources[b.id]:
                if src[0] == "arg" and (b.id, src) not in ga.safe:
                    unsafe_exported.add(b.id)

    def is_derived(b, bad):
        for u, why in bad:
            if u["kind"] == "call":
                tb = facts.by_id.get(u["call"].resolved)
                if tb is not None and tb.id in unsafe_exported and tb.id != b.id:
                    continue
                return False
            if u["kind"] == "carrier":
                rd = ga.unsafe_readers(u["adt"], u["field"])
                if rd and all(reader_derived(facts.by_id[r]) for r in rd):
                    continue
                return False
            return False
        return True

    def bad_uses(b, src):
        uses, chk = ga.uses[(b.id, src)]
        out = []
        for u in uses:
            ok, why = ga.use_ok(b, u, chk, src)
            if not ok:
                out.append((u, why))
        return out

    def reader_derived(rb):
        for src in ga.sources[rb.id]:
            if src[0] == "field" and (rb.id, src) not in ga.safe:
                if not is_derived(rb, bad_uses(rb, src)):
                    return False
        return True

    derived = {}
    for b in facts.bodies:
        if not b.exported or b.kind == "Closure":
            continue
        for src, locs in ga.sources[b.id].items():
            if src[0] != "arg":
                continue
            uses, chk = ga.uses[(b.id, src)]
            bad = bad_uses(b, src)
            if bad and is_derived(b, bad):
                for u, why in bad:
                    tgt = u["call"].resolved if u["kind"] == "call" else "%s.%s" % (u["adt"], u["field"])
                    derived.setdefault(tgt, []).append(strip_generics(b.id))
                ctx.inst("G1", b, "guard parameter %d" % src[1], b.span, True,
                         "delegates to an exported function that is itself reported: %s" % bad[0][1], nontrivial=True)
                continue
            if bad:
                u, why = bad[0]
                loc = u["call"].span if u["kind"] == "call" else u.get("span", b.span)
                ctx.inst("G1", b, "guard parameter %d" % src[1], loc, False,
                         "%s (%d unchecked use(s) in all); no guard check dominates it" % (why, len(bad)))
            else:
                ctx.inst("G1", b, "guard parameter %d" % src[1], b.span, True,
                         "%d use(s), %d direct check(s): all checked or delegated to safe functions" % (len(uses), len([1 for h, c, p in chk if h == "direct"])))
    for i in ctx.instances:
        if i.rule == "G1" and not i.ok and i.fn in derived:
            i.detail += "; also reachable unchecked through: " + ", ".join(sorted(set(derived[i.fn])))
    # G2: readers of carriers that an exported function can build around an unchecked parameter
    exported_carriers = {}
    for (adt, field), sites in ga.unchecked_carriers.items():
        for b, u in sites:
            exported_carriers.setdefault((adt, field), []).append((b, u))
    for (adt, field), sites in sorted(exported_carriers.items()):
        for rb, src in ga.readers(adt, field):
            uses, chk = ga.uses[(rb.id, src)]
            if not uses:
                continue
            built_unchecked = [b for b, u in sites if (b.id, ("arg", 0)) or True]
            bad = bad_uses(rb, src)
            # only a problem when some construction site is not itself protected by its callers' checks:
            ctor_exposed = any(b.exported for b, u in sites)
            if bad and ctor_exposed and not is_derived(rb, bad):
                u, why = bad[0]
                loc = u["call"].span if u["kind"] == "call" else u.get("span", rb.span)
                ctx.inst("G2", rb, "field %s.%s" % (adt, field), loc, False,
                         "%s; %s can be built around an unchecked guard at %s" % (why, adt, sites[0][1].get("span", "?")))
            else:
                ctx.inst("G2", rb, "field %s.%s" % (adt, field), rb.span, True,
                         ("%d use(s), all through safe functions" % len(uses)) if not bad else
                         ("constructor not exported / delegates to a reported function: %s" % bad[0][1]))
    ctx.note("carrier constructions around a parameter guard: %s" % {"%s.%s" % k: [strip_generics(b.id) for b, u in v] for k, v in ga.unchecked_carriers.items()})
    ctx.note("safe (function, source) pairs: %d" % len(ga.safe))
