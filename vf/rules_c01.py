"""C01 -- linearizable single-key operations (clauses only).  L1 lock -> re-validate -> mutate / L2 mutation only under the bin lock /
L3 publish before forward / L4 forwarding retry / L5 CAS-failure keeps the entry (ESP, shared with C04-O3) / L6 facade conformance."""
from .affine import evaluator, TOP
from .analysis import flow, regions, cond_of, dominated_by_edge, reach, Point, after, dominates, held_regions_at
from .anchors import anchors, callee_str, is_shared_write, is_link_load, receiver_field, is_reclaim_atomic, is_fresh_alloc
from .callgraph import callgraph
from .facts import op_root, op_local, strip_generics
from .protocol import validated_regions, mutations, bin_lock_region, user_closure_call
from .rules_c07 import private_roots

PROP = "C01"
LEVEL = "other"
EXPLANATION = (
    "Clauses only -- linearizability of histories is NOT decided. Decided, on every CFG path of every writer: (L1) each of the bin-lock "
    "acquisitions locks a node reached from Table::bin(T,i), re-loads Table::bin(T,i) under the lock, compares it by pointer identity with "
    "the locked head, performs every mutation of the critical section only on the equal edge and leaves the section without any mutation on "
    "the unequal edge; (L2) every write to a bin's contents (Node.next/value, TreeBin.first/root, tree links, store_bin) happens inside a "
    "held bin-lock region, on a node private to the body, in teardown, or is the lock-free CAS of an empty bin; functions that restructure "
    "trees are lifted to their call sites; (L3) transfer stores both halves into the new table before it installs the forwarding marker; "
    "(L4) every writer loop feeds help_transfer's result back into its table variable; (L5) a failed empty-bin CAS reclaims the private "
    "node, keeps key and value and falls through to the slow path; (L6) the set / pinned-reference facades consist of one call to the "
    "corresponding HashMap method with their own map and guard (guards stay paired with their maps). Each clause is a necessary condition: "
    "a tree violating it admits a concrete lost, duplicated or misattributed update.")

BIN_FIELDS = {("node::Node", "next"), ("node::Node", "value"), ("node::TreeBin", "first"), ("node::TreeBin", "root"),
              ("node::TreeNode", "left"), ("node::TreeNode", "right"), ("node::TreeNode", "parent"), ("node::TreeNode", "prev"),
              ("node::TreeNode", "red")}


def rule_l1(ctx, facts, rule="L1", only=None):
    for b in facts.bodies:
        if only is not None and b.sid not in only:
            continue
        vs = [v for v in validated_regions(b) if bin_lock_region(v.region)]
        if not vs:
            continue
        muts = mutations(b)
        for v in vs:
            r = v.region
            what = "lock at %s" % r.call.span.split(":", 1)[1]
            if v.switch is None:
                # a lock region without any mutation needs no validation (none exists today)
                inreg = [m for m in muts if m in r.points]
                ctx.inst(rule, b, what, r.call.span, not inreg and False, "no head re-validation: %s" % v.why)
                continue
            bad = None
            n = 0
            for m, desc in muts.items():
                if m not in r.points:
                    continue
                n += 1
                if not v.dominated_by_validation(m):
                    bad = (m, desc, "is reachable from the lock without passing the `still the head` edge")
                    break
            if bad is None:
                ne_reach = reach(b, [Point(v.ne, 0)], avoid=r.kills) & r.points
                for m, desc in muts.items():
                    if m in ne_reach:
                        bad = (m, desc, "is reachable on the edge where the head has changed")
                        break
            if bad is None:
                # no stale reads: a link of this bin that is used inside the critical section must have been loaded inside it
                fl = flow(b)
                for c in b.calls:
                    if c.point not in r.points or b.is_cleanup(c.b):
                        continue
                    for a in c.args:
                        x = op_root(a)
                        if x is None or b.ty(x).get("base") not in ("reclaim::Shared", "node::Node", "node::TreeNode", "node::TreeBin", "node::BinEntry",
                                                                    "seize::Linked", "reclaim::Atomic"):
                            continue
                        for rt in fl.roots_at(x, c.point):
                            if rt[0] != "call":
                                continue
                            rc = b.call_at(rt[1])
                            if rc is not None and rc.point not in r.points and not held_regions_at(b, rc.point) and is_finder(facts, rc) \
                                    and dominates(b, rc.point, r.call.point):
                                bad = (c.point, "use of a node found before the lock",
                                       "works on the node that %s returned at %s before the lock was taken: by the time the section runs that node may have "
                                       "been removed and replaced (stale)" % (strip_generics(rc.resolved).rsplit("::", 1)[-1], rc.span))
                            if is_link_load(rc) == "load" and rc.point not in r.points and not held_regions_at(b, rc.point):
                                f = receiver_field(b, rc, 0)
                                if f and all(adt.startswith("node::") for adt, _ in f) and dominates(b, rc.point, r.call.point):
                                    bad = (c.point, "use of %s" % "/".join(sorted(n for _, n in f)),
                                           "uses a link that was loaded at %s before the lock was taken (stale by the time the section runs)" % rc.span)
                    if bad:
                        break
            if bad:
                ctx.inst(rule, b, what, b.span_at(bad[0]), False, "%s at %s %s (validation at %s)" % (bad[1], b.span_at(bad[0]), bad[2], b.term(v.switch)["span"]))
            else:
                ctx.inst(rule, b, what, r.call.span, True, "%d mutation(s) in the region, all dominated by the equal edge of the re-validation at %s; "
                         "the unequal edge leaves without mutating" % (n, b.term(v.switch)["span"]))


NODE_LEVEL = ("node::TreeBin", "node::TreeNode", "node::Node", "node::BinEntry", "reclaim::Shared", "reclaim::Atomic")


def transitive_params(body, local, limit=400):
    """parameters from which `local` derives when link loads and node-returning helpers are followed into their arguments.
    returns (set of param indices, list of other terminal origins)"""
    fl = flow(body)
    params, other = set(), []
    seen = set()
    stack = [local]
    while stack and len(seen) < limit:
        l = stack.pop()
        if l in seen:
            continue
        seen.add(l)
        roots, _ = fl.roots(l)
        for r in roots:
            if r[0] == "arg":
                params.add(r[1])
            elif r[0] == "call":
                c = body.call_at(r[1])
                s = callee_str(c)
                if any(s.endswith(p) for p in ("Shared::boxed", "Shared::null", "TreeNode::new", "Node::new", "Node::with_next", "Atomic::null", "Atomic::from")) \
                        or is_fresh_alloc(body, c):
                    continue
                for a in c.args:
                    ar = op_root(a)
                    if ar is not None and body.ty(ar).get("base") in NODE_LEVEL + ("raw::Table", "map::HashMap", "seize::Linked"):
                        stack.append(ar)
            elif r[0] in ("const", "agg", "undef"):
                continue
            else:
                other.append(str(r))
    return params, other


def rule_l2(ctx, facts, rule="L2"):
    an = anchors(facts)
    cg = callgraph(facts)
    needs_lock = {}   # body id -> first lifted write
    sites = []
    for b in facts.bodies:
        if b.kind == "Closure" and b.id.rsplit("::{closure", 1)[0] in an.retire_fns:
            continue
        fl = flow(b)
        teardown = (b.nargs >= 1 and b.ty(1)["s"].startswith("&mut ")) or bool(b.impl and b.impl.get("trait") == "std::ops::Drop")
        for c in b.calls:
            if b.is_cleanup(c.b):
                continue
            w = is_shared_write(c)
            if not w:
                continue
            f = receiver_field(b, c, 0)
            is_bin_write = (w[0] == "table") or (w[0] in ("reclaim", "std") and bool(f & BIN_FIELDS))
            if not is_bin_write:
                continue
            what = "%s %s" % (w[1], "/".join(sorted(x[1] for x in f)) or "bin slot")
            held = [r for r in held_regions_at(b, c.point) if bin_lock_region(r)]
            if held:
                ctx.inst(rule, b, what, c.span, True, "inside the bin-lock region opened at %s" % held[0].call.span)
                continue
            if teardown:
                ctx.inst(rule, b, what, c.span, True, "teardown: exclusive access", nontrivial=False)
                continue
            if w[1] == "cas_bin":
                exp = op_root(c.args[2])
                ok = False
                if exp is not None:
                    roots = fl.roots_at(exp, c.point)
                    if roots and all(r[0] == "call" and callee_str(b.call_at(r[1])).endswith("Shared::null") for r in roots):
                        ok = True
                    else:
                        # on the null edge of an is_null test of the expected value
                        for blk in range(len(b.blocks)):
                            cd = cond_of(b, blk)
                            if cd and cd["kind"] == "is_null" and cd["arg"] in fl.copies_of(exp) and dominated_by_edge(b, c.point, [(blk, cd["true"])]):
                                ok = True
                ctx.inst(rule, b, what, c.span, ok, "lock-free form: CAS of an empty bin (expected value is null)" if ok else
                         "cas_bin outside a bin lock with an expected value that is not known to be null")
                continue
            tl = op_root(c.args[0])
            bad = private_roots(b, tl) if tl is not None else ["?"]
            if not bad:
                ctx.inst(rule, b, what, c.span, True, "target is private to this body (fresh node)")
                continue
            params, other = transitive_params(b, tl)
            if params and not other and all(b.ty(k).get("base") in NODE_LEVEL for k in params):
                # a helper that restructures the nodes it is handed: judged where it is called
                needs_lock.setdefault(b.id, (c, what))
                ctx.inst(rule, b, what, c.span, True, "helper writing nodes reached from its parameters; lifted to its call sites", nontrivial=False)
                continue
            ctx.inst(rule, b, what, c.span, False, "write to bin contents outside any bin-lock region (target derives from %s)" % "; ".join(bad)[:200])
    # lifted functions: judged at their call sites, transitively
    changed = True
    judged = set()
    while changed:
        changed = False
        for fid in list(needs_lock):
            if fid in judged:
                continue
            judged.add(fid)
            for caller_id, via in cg.callers(fid):
                if not hasattr(via, "point"):
                    continue
                g = facts.by_id[caller_id]
                if g.is_cleanup(via.b):
                    continue
                held = [r for r in held_regions_at(g, via.point) if bin_lock_region(r)]
                what = "call of %s" % strip_generics(fid).rsplit("::", 1)[-1]
                if held:
                    ctx.inst(rule, g, what, via.span, True, "tree/list restructuring helper called inside the bin-lock region opened at %s" % held[0].call.span)
                elif caller_id in needs_lock or caller_id == fid:
                    ctx.inst(rule, g, what, via.span, True, "caller is itself a write-locked helper (lifted further)", nontrivial=False)
                else:
                    # private arguments (TreeBin::new on a fresh list)?
                    priv = all(not private_roots(g, op_root(a)) for a in via.args if op_root(a) is not None and g.ty(op_root(a))["base"] == "reclaim::Shared")
                    if priv and any(g.ty(op_root(a))["base"] == "reclaim::Shared" for a in via.args if op_root(a) is not None):
                        ctx.inst(rule, g, what, via.span, True, "operates on a private list")
                    else:
                        # does the caller write its own parameters only? then lift again
                        gfl = flow(g)
                        param_driven = all(any(gfl.derives_from_arg(op_root(a), k) for k in range(1, g.nargs + 1))
                                           for a in via.args if op_root(a) is not None and g.ty(op_root(a))["base"] in ("reclaim::Shared", "node::TreeBin", "node::TreeNode"))
                        if param_driven and g.id not in needs_lock and not g.exported:
                            needs_lock[g.id] = (via, what)
                            changed = True
                            ctx.inst(rule, g, what, via.span, True, "helper working on its parameters (lifted to its callers)", nontrivial=False)
                        else:
                            ctx.inst(rule, g, what, via.span, False, "%s mutates bin contents but is called outside any bin-lock region" % strip_generics(fid))


def rule_l3(ctx, facts, rule="L3"):
    tr = facts.body("HashMap::transfer")
    fl = flow(tr)
    ev = evaluator(tr)
    fwd = []
    for c in tr.calls:
        if callee_str(c).endswith("raw::Table::store_bin") and not tr.is_cleanup(c.b):
            v = op_root(c.args[2])
            roots, _ = fl.roots(v) if v is not None else (set(), None)
            if any(r[0] == "call" and callee_str(tr.call_at(r[1])).endswith("Table::get_moved") for r in roots):
                fwd.append(c)
    stores = [c for c in tr.calls if callee_str(c).endswith("raw::Table::store_bin") and c not in fwd and not tr.is_cleanup(c.b)]
    for m in fwd:
        old = fl.closure_locals(op_root(m.args[0]))
        pre = [s for s in stores if not (fl.closure_locals(op_root(s.args[0])) & old) and dominates(tr, s.point, m.point)]
        idx = []
        for s in pre:
            f = ev.operand(s.args[1])
            idx.append(f)
        fi = ev.operand(m.args[1])
        distinct = len({(f.show(tr) if f is not TOP else id(f)) for f in idx}) >= 2
        has_i = any(f is not TOP and fi is not TOP and f == fi for f in idx)
        ok = len(pre) >= 2 and distinct and has_i
        ctx.inst(rule, tr, "forwarding marker after both new bins", m.span, ok,
                 "store_bin(new, %s) dominate the forwarding store" % ", ".join(f.show(tr) if f is not TOP else "?" for f in idx) if ok else
                 "the forwarding marker is stored at %s but only %d store(s) into the new table (%s) dominate it: a reader following the marker can miss a half of the bin"
                 % (m.span, len(pre), [f.show(tr) if f is not TOP else "?" for f in idx]))


def rule_l4(ctx, facts):
    ht = facts.body("HashMap::help_transfer")
    for b in facts.bodies:
        fl = flow(b)
        for c in b.calls:
            if c.resolved != ht.id or b.is_cleanup(c.b):
                continue
            dl = c.dst_local()
            bins = [x for x in b.calls if is_link_load(x) == "bin"]
            recv = set()
            for x in bins:
                r = op_root(x.args[0])
                if r is not None:
                    recv |= fl.closure_locals(r)
            # (re)definitions of the loop's table variable from help_transfer's result or a fresh load of the map's table pointer
            redefs = set()
            for l in recv:
                for pt, kind, data in b.defs.get(l, []):
                    if kind not in ("assign", "call"):
                        continue
                    if kind == "call":
                        srcs = [data]
                    else:
                        rl = op_root(data["rv"].get("use") or data["rv"].get("cast") or {}) if ("use" in data["rv"] or "cast" in data["rv"]) else None
                        srcs = [b.call_at(r[1]) for r in (fl.roots_at(rl, pt) if rl is not None else set()) if r[0] == "call"]
                    for sc in srcs:
                        if sc is None:
                            continue
                        if sc.b == c.b or (is_reclaim_atomic(sc) == "load" and receiver_field(b, sc, 0) & {("map::HashMap", "table"), ("map::HashMap", "next_table")}):
                            redefs.add(pt)
            r = reach(b, after(b, c.point, label="ret"), avoid=redefs - {c.point})
            stale = [x for x in bins if x.point in r] if c.point not in redefs else []
            again = any(x.point in reach(b, after(b, c.point, label="ret")) for x in bins)
            ok = not stale
            ctx.inst("L4", b, "after help_transfer the writer retries in a current table", c.span, ok and again,
                     "table variable is re-assigned (from help_transfer's result or a fresh load of the table pointer) before the bin is re-read" if ok and again else
                     "the bin is re-read at %s from the forwarded table: help_transfer's result is dropped and the table variable is not refreshed" % stale[0].span if not ok else
                     "after helping, the writer does not retry (the operation is abandoned when it meets a forwarding marker)")


# ------------------------------------------------------------------------------------------------ L6

WRAPPED = {"map_ref::HashMapRef": ("map::HashMap", "map"), "set_ref::HashSetRef": ("set::HashSet", "set"), "set::HashSet": ("map::HashMap", "map")}
RENAMES = {("set::HashSet", "contains"): "contains_key", ("set::HashSet", "get"): "get_key_value", ("set::HashSet", "take"): "remove_entry",
           ("set::HashSet", "iter"): "keys", ("set::HashSet", "is_superset"): "is_subset", ("set_ref::HashSetRef", "is_superset"): "is_superset",
           ("set::HashSet", "new"): "new", ("set::HashSet", "default"): "default"}
OPS = ("get", "get_key_value", "contains_key", "contains", "insert", "try_insert", "remove", "remove_entry", "take", "compute_if_present",
       "retain", "retain_force", "clear", "reserve", "iter", "keys", "values", "is_subset", "is_disjoint", "is_superset", "len")
LOOKUPS = ("get", "get_key_value", "contains_key", "contains")
HELPERS = ("guard", "pin", "with_guard", "iter", "contains", "is_subset", "len", "is_empty", "guarded_eq", "eq", "deref")


def rule_l6(ctx, facts, rule="L6", only_ops=None):
    for b in facts.bodies:
        if b.kind == "Closure" or not b.impl or b.impl.get("trait"):
            continue
        head = b.impl["self_head"]
        if head not in WRAPPED or not b.exported:
            continue
        wrapped, field = WRAPPED[head]
        want = RENAMES.get((head, b.name), b.name)
        if want not in OPS or (only_ops is not None and want not in only_ops):
            continue
        fl = flow(b)
        delegates = []
        others = []
        bodies = [b] + facts.closures_of(b)
        for bb in bodies:
            for c in bb.calls:
                if bb.is_cleanup(c.b):
                    continue
                tb = facts.by_id.get(c.resolved)
                if tb is None or tb.kind == "Closure":
                    continue
                th = (tb.impl or {}).get("self_head", "")
                # the pure lookups are interchangeable as delegation targets: contains_key(k) is get(k).is_some() is
                # get_key_value(k).is_some(); what the facade may return is fixed by the types
                same_op = tb.name == want or (want in LOOKUPS and tb.name in LOOKUPS)
                if th == wrapped and same_op:
                    delegates.append((bb, c, tb))
                elif th == head and same_op and tb.id != b.id and tb.exported:
                    delegates.append((bb, c, tb))      # through a sibling method of the same facade, which is judged on its own
                elif tb.name in HELPERS or th.startswith("reclaim::"):
                    continue
                else:
                    others.append((bb, c, tb))
        exists = any((x.impl or {}).get("self_head") == wrapped and x.name == want for x in facts.bodies)
        if not exists:
            continue
        if len(delegates) >= 1 and not others:
            ctx.inst(rule, b, "delegates to %s::%s" % (wrapped.rsplit("::", 1)[-1], want), b.span, True, "one delegation, no other map logic")
        else:
            ctx.inst(rule, b, "delegates to %s::%s" % (wrapped.rsplit("::", 1)[-1], want), b.span, False,
                     "facade method does not reduce to the wrapped method: %d call(s) to %s::%s, other flurry calls: %s"
                     % (len(delegates), wrapped, want, [strip_generics(t.id) for _, _, t in others][:4]))
    if only_ops is not None:
        return
        # guard pairing inside two-collection relations
    for b in facts.bodies:
        if b.kind == "Closure" or not b.impl or b.impl["self_head"] not in ("set::HashSet", "set_ref::HashSetRef", "map::HashMap", "map_ref::HashMapRef"):
            continue
        gparams = [k for k in range(1, b.nargs + 1) if b.ty(k).get("base") == "seize::Guard"]
        if len(gparams) != 2:
            continue
        # parameters: (self=1, other=2, our_guard, their_guard)
        pair = {1: gparams[0], 2: gparams[1]}
        fl = flow(b)
        ok = True
        why = ""
        n = 0
        for bb in [b] + facts.closures_of(b):
            if bb is not b:
                continue
            for c in bb.calls:
                if bb.is_cleanup(c.b):
                    continue
                tb = facts.by_id.get(c.resolved)
                if tb is None or tb.kind == "Closure":
                    continue
                # positions of collection args and guard args of this call, in order
                colls = [op_root(a) for a in c.args if op_root(a) is not None and bb.ty(op_root(a)).get("base") in
                         ("set::HashSet", "map::HashMap", "set_ref::HashSetRef", "map_ref::HashMapRef")]
                gs = [op_root(a) for a in c.args if op_root(a) is not None and bb.ty(op_root(a)).get("base") == "seize::Guard"]
                if not gs or not colls or len(colls) < len(gs):
                    continue
                for coll, g in zip(colls, gs):
                    n += 1
                    ck = [k for k in (1, 2) if fl.derives_from_arg(coll, k)]
                    gk = [k for k in gparams if fl.derives_from_arg(g, k)]
                    if len(ck) == 1 and len(gk) == 1 and pair[ck[0]] != gk[0]:
                        ok = False
                        why = "%s is used with the guard of the other collection at %s" % ("self" if ck[0] == 1 else "other", c.span)
        if n:
            ctx.inst("L6", b, "guards stay paired with their collections", b.span, ok, "%d (collection, guard) pairs checked" % n if ok else why)


def key_eq_calls(body):
    """calls of the user's key equality (PartialEq::eq on a type parameter) one of whose operands is the `key` field of a node"""
    from .affine import canon_place
    out = []
    fl = flow(body)
    for c in body.calls:
        cal = c.callee
        if not cal or cal.get("trait") != "std::cmp::PartialEq" or body.is_cleanup(c.b):
            continue
        if cal["kind"] != "param_trait_method" and not cal.get("self_ty", {}).get("base", "").startswith("param:"):
            continue
        for a in c.args:
            l = op_root(a)
            if l is None:
                continue
            if any(fs and fs[-1][1] == "key" and fs[-1][0].startswith("node::") for base, fs in fl.ref_fields(l)):
                out.append(c)
                break
    return out


def has_key_param(b):
    """the body searches for one key: it has a parameter of the lookup-key type (&Q) or an owned key (K) next to a hash"""
    tys = [b.ty(k)["s"] for k in range(1, b.nargs + 1)]
    return any(t in ("&Q", "&K") for t in tys) or ("K" in tys and "u64" in tys) or (b.name in ("put",) and "K" in tys)


def is_finder(facts, x):
    tb = facts.by_id.get(x.resolved)
    if tb is None or is_link_load(x):
        return False
    ret = (tb.sig or "").split("->")[-1]
    return (("reclaim::Shared<" in ret and "node::BinEntry" in ret) or "node::Node<" in ret) and has_key_param(tb)


def rule_l8(ctx, facts):
    """no update or lookup result is attributed to another key: a node is treated as `the entry for this key` only on the true edge of the
    user's key equality (and its value slot is only touched there)"""
    n = 0
    for b in facts.bodies:
        if b.kind == "Closure":
            continue
        eqs = key_eq_calls(b)
        if not has_key_param(b):
            continue
        fl = flow(b)
        true_edges = []
        for blk in range(len(b.blocks)):
            cd = cond_of(b, blk)
            if cd and cd["kind"] == "call" and cd["call"].b in {e.b for e in eqs}:
                true_edges.append((blk, cd["true"]))
            elif cd and cd["kind"] == "bool":
                pass
        if not true_edges:
            # the comparison result may be combined (&&) through a temporary: find switches on locals that derive from the eq call
            for blk in range(len(b.blocks)):
                t = b.term(blk)
                if t["k"] == "switch" and op_root(t["on"]) is not None:
                    if any(x.b in {e.b for e in eqs} for x in fl.call_roots(op_root(t["on"])) if x is not None) and len(t["targets"]) == 1 and t["targets"][0][0] == "0":
                        true_edges.append((blk, t["otherwise"]))
        # (a) every access to a node's value slot in this body happens after a key match
        for c in b.calls:
            if b.is_cleanup(c.b):
                continue
            k = is_reclaim_atomic(c)
            if k in ("load", "swap", "store", "compare_exchange") and ("node::Node", "value") in receiver_field(b, c, 0):
                n += 1
                ok = bool(true_edges) and dominated_by_edge(b, c.point, true_edges)
                if not ok:
                    # the node was delivered by a finder (a function returning the matching node), which is judged itself
                    rl = op_root(c.args[0])
                    finders = [x for x in fl.call_roots(rl) if x is not None and is_finder(facts, x)]
                    if finders:
                        ctx.inst("L8", b, "%s of a node's value" % k, c.span, True, "node delivered by the finder %s" % strip_generics(finders[0].resolved))
                        continue
                ctx.inst("L8", b, "%s of a node's value" % k, c.span, ok,
                         "only on the true edge of the key comparison" if ok else
                         "the value slot of a node is accessed at %s on a path on which that node's key was not compared equal to the key of the operation: "
                         "an update or result can be attributed to another key" % c.span)
        # (b) finders: a non-null result is only produced after a key match
        if b.sig and "-> reclaim::Shared<" in b.sig and "node::BinEntry" in b.sig.split("->")[-1]:
            for bi, blk in enumerate(b.blocks):
                if blk["cleanup"]:
                    continue
                for si, st in enumerate(blk["stmts"]):
                    if st["k"] == "assign" and st["dst"]["local"] == 0 and not st["dst"]["proj"] and "use" in st["rv"]:
                        src = op_root(st["rv"]["use"])
                        if src is None:
                            continue
                        # `Some(x)` / tuple wrappers the pointer passes through on its way (an expanded `then(..).unwrap_or_else(..)`) are
                        # not producers: their operands are followed
                        roots = {r for r in fl.roots_at(src, Point(bi, si)) if r[0] != "agg"}
                        calls = [b.call_at(r[1]) for r in roots if r[0] == "call"]
                        # null results and results of nested finders are not judged here
                        if calls and all(callee_str(x).endswith("Shared::null") or is_finder(facts, x) for x in calls):
                            continue
                        # ... nor a pointer that is returned on the edge where it was just seen to be null (`if p.is_null() { return p }`)
                        null_edges = []
                        for blk2 in range(len(b.blocks)):
                            cd2 = cond_of(b, blk2)
                            if cd2 and cd2["kind"] == "is_null" and cd2.get("arg") in fl.copies_of(src):
                                null_edges.append((blk2, cd2["true"]))
                        if null_edges and dominated_by_edge(b, Point(bi, si), null_edges):
                            continue
                        n += 1
                        # judged where the returned pointer is produced (the copy into the return place may sit behind a join,
                        # e.g. the common return block of an inlined helper)
                        prod = [x for x in calls if not (callee_str(x).endswith("Shared::null") or is_finder(facts, x))]
                        ok = bool(true_edges) and (dominated_by_edge(b, Point(bi, si), true_edges) or
                                                   (bool(prod) and len(prod) == len([r for r in roots if r[0] == "call"]) - len(
                                                       [x for x in calls if callee_str(x).endswith("Shared::null") or is_finder(facts, x)])
                                                    and all(dominated_by_edge(b, x.point, true_edges) for x in prod)
                                                    and all(r[0] == "call" for r in roots)))
                        ctx.inst("L8", b, "node returned as found", st["span"], ok,
                                 "only on the true edge of the key comparison" if ok else
                                 "a node is returned as the match at %s although its key was not compared equal on that path" % st["span"])
                c = b.call_at(bi)
                if c is not None and c.dst_local() == 0 and is_finder(facts, c):
                    continue
                if c is not None and c.dst_local() == 0 and c.name == "from" and (c.callee.get("impl_self") == "reclaim::Shared" or "reclaim::Shared" in (c.resolved or "")):
                    n += 1
                    ok = bool(true_edges) and dominated_by_edge(b, c.point, true_edges)
                    ctx.inst("L8", b, "node returned as found", c.span, ok,
                             "only on the true edge of the key comparison" if ok else
                             "a node is returned as the match at %s although its key was not compared equal on that path" % c.span)
    if n < 10:
        ctx.fail_closed("L8: expected at least 10 value-slot accesses / found-node returns guarded by key comparisons, found %d" % n)


def rule_l12(ctx, facts, rule="L12"):
    """the `next` pointer of a node that is being removed is left alone: lock-free readers (get, iterators) may be standing on that very
    node and follow its `next` to reach the rest of the bin; only the predecessor's link (or the bin slot) is redirected.  Reported: a
    store to Node.next through the same variable that is then retired, with no re-assignment of the variable in between."""
    an = anchors(facts)
    NEXT = ("node::Node", "next")
    n = 0

    def named_root(b, l, depth=0):
        fl = flow(b)
        seen = set()
        while l is not None and l not in seen and depth < 40:
            seen.add(l)
            depth += 1
            if b.local_name(l) and b.ty(l).get("base") == "reclaim::Shared" and b.ty(l).get("refs", 0) == 0:
                return l          # the pointer variable the node was reached from (`n = p.deref()...` resolves to `p`)
            srcs = fl.sources(l)
            if len(srcs) != 1:
                return None
            kind, data, pt = srcs[0]
            if kind == "copy":
                l = data
            elif kind in ("ref", "field"):
                l = data["local"]
            elif kind == "view":
                l = data[1]
            else:
                return None
        return None
    for b in facts.bodies:
        rets = []
        for c in b.calls:
            k = an.is_retire(c)
            if k is None or b.is_cleanup(c.b) or k >= len(c.args) or op_root(c.args[k]) is None:
                continue
            targs = b.ty(op_root(c.args[k])).get("args", [""])
            if not (targs and str(targs[-1]).startswith("node::BinEntry")):
                continue
            r = named_root(b, op_root(c.args[k]))
            if r is not None:
                rets.append((c, r))
        if not rets:
            continue
        for c in b.calls:
            if b.is_cleanup(c.b) or is_reclaim_atomic(c) not in ("store", "swap", "compare_exchange") or NEXT not in receiver_field(b, c, 0):
                continue
            recv = named_root(b, op_root(c.args[0])) if c.args and op_root(c.args[0]) is not None else None
            if recv is None:
                continue
            n += 1
            bad = None
            for rc, rr in rets:
                if rr != recv:
                    continue
                redefs = {d[0] for d in b.defs.get(recv, []) if d[1] in ("assign", "call")}
                if rc.point in reach(b, after(b, c.point, label="ret"), avoid=redefs):
                    bad = rc
                    break
            ctx.inst(rule, b, "store to the next pointer of `%s`" % b.local_name(recv), c.span, bad is None,
                     "the node written to is not the one that is retired afterwards" if bad is None else
                     "the next pointer of the node held in `%s` is overwritten at %s and the same node is then unlinked and retired at %s: a lock-free "
                     "reader standing on it loses the rest of the bin and misses keys that were never removed" % (b.local_name(recv), c.span, bad.span))
    if n < 3:
        ctx.fail_closed(rule + ": expected at least 3 stores to Node.next through a named node variable (put append, unlinks in compute_if_present / replace_node), found %d" % n)


class _P:
    """a statement presented like a call site (point and span)"""
    def __init__(self, body, pt):
        self.point, self.span = pt, body.span_at(pt)


def inline_len_reads(b, il):
    """length reads (`Table::len`, `<[T]>::len`, `Vec::len`) the index is computed from, through arithmetic, masks and casts"""
    out, seen, stack = [], set(), [il]
    while stack:
        l = stack.pop()
        if l is None or l in seen or len(seen) > 60:
            continue
        seen.add(l)
        for pt, kind, data in b.defs.get(l, []):
            if kind == "call":
                if callee_str(data).rsplit("::", 1)[-1] == "len":
                    out.append(data)
                continue
            if kind != "assign":
                continue
            rv = data["rv"]
            for key in ("use", "cast", "a", "b"):
                if key in rv and isinstance(rv[key], dict):
                    stack.append(op_root(rv[key]))
    return out


def rule_l9(ctx, facts):
    """a bin is read at the index computed for that very table: between `T.bini(hash)` and `T.bin(i)` the table variable is not re-assigned
    (an index computed for an older table selects the wrong bin of a longer one)"""
    n = 0
    for b in facts.bodies:
        fl = flow(b)
        for c in b.calls:
            if is_link_load(c) != "bin" or b.is_cleanup(c.b):
                continue
            il = op_root(c.args[1])
            tl = op_root(c.args[0])
            if il is None or tl is None:
                continue
            binis = [x for x in fl.call_roots(il) if x is not None and callee_str(x).endswith("raw::Table::bini")]
            if not binis:
                # the same computation written out (a helper that masks the hash with the table's length and reads the bin in one go):
                # the index derives from a read of the length of a table
                binis = inline_len_reads(b, il)
            if not binis:
                continue
            n += 1
            # multi-definition locals the receiver derives from (the loop's table variable)
            tvars = [l for l in fl.closure_locals(tl) if len([d for d in b.defs.get(l, []) if d[1] in ("assign", "call")]) > 1]
            stale = None
            for bc in binis:
                # the hash must be the operation's own
                r1 = reach(b, after(b, bc.point, label="ret"), avoid={bc.point})
                for tv in tvars:
                    for pt, kind, data in b.defs.get(tv, []):
                        if kind not in ("assign", "call") or pt not in r1:
                            continue
                        start = after(b, pt, label="ret") if kind == "call" else after(b, pt)
                        if c.point in reach(b, start, avoid={bc.point}):
                            stale = (bc, tv, pt)
            ok = stale is None
            ctx.inst("L9", b, "bin index computed for the table it is used on", c.span, ok,
                     "index from bini() of the same table value" if ok else
                     "the bin is read at %s with an index computed by bini() at %s, but `%s` is re-assigned in between (%s): the index belongs to an older, "
                     "shorter table and selects the wrong bin" % (c.span, stale[0].span, b.local_name(stale[1]) or "_%d" % stale[1], b.span_at(stale[2])))
    if n < 5:
        ctx.fail_closed("L9: expected at least 5 bini/bin pairs (get_node, find, put, compute_if_present, replace_node), found %d" % n)


def rule_l10(ctx, facts):
    """sibling agreement of the tree descent: the routines that insert into a tree bin (TreeBin::new, find_or_put_tree_val) and the routine
    that searches it (find_tree_node) go to the same child on `node (hash, key) > searched (hash, key)`.  Only agreement is compared, so a
    consistent mirror image of all of them is accepted."""
    from .affine import canon_place
    dirs = {}
    for b in facts.bodies:
        if b.kind == "Closure":
            continue
        fl = flow(b)
        for c in b.calls:
            cal = c.callee
            if not cal or cal.get("trait") != "std::cmp::Ord" or c.name != "cmp" or b.is_cleanup(c.b):
                continue
            a0 = c.arg_local(0)
            if a0 is None:
                continue
            # first operand is a field (hash or key) of a tree node
            f0 = {fs[-1][1] for base, fs in fl.ref_fields(a0) if fs and fs[-1][0] == "node::Node"}
            if not f0 & {"hash", "key"}:
                continue
            what = "hash" if "hash" in f0 else "key"
            # the discriminant switch on the result (possibly through Ordering::then)
            dl = c.dst_local()
            for blk in range(len(b.blocks)):
                t = b.term(blk)
                if t["k"] != "switch":
                    continue
                l = op_local(t["on"])
                src = None
                for pt, kind, data in b.defs.get(l, []) if l is not None else []:
                    if kind == "assign" and "discr" in data["rv"] and not data["rv"]["discr"]["proj"]:
                        src = data["rv"]["discr"]["local"]
                via_then = src is not None and any(x is not None and callee_str(x).endswith("Ordering::then") and op_root(x.args[0]) in fl.flows_to(dl)
                                                   for x in fl.call_roots(src))
                if src is None or not (src in fl.flows_to(dl) or via_then or any(x is not None and x.b == c.b for x in fl.call_roots(src))):
                    continue
                for v, tb in t["targets"]:
                    side = {"1": "Greater", "255": "Less"}.get(v)
                    if not side:
                        continue
                    # which child field is selected in the blocks that only this edge reaches
                    chosen = set()
                    for b2 in range(len(b.blocks)):
                        if b.is_cleanup(b2) or not dominated_by_edge(b, Point(b2, 0), [(blk, tb)]):
                            continue
                        # stop at the join: only blocks not reachable from the other edges without passing this one
                        for st in b.blocks[b2]["stmts"]:
                            if st["k"] == "assign":
                                p0 = st["rv"].get("ref") or (st["rv"].get("use") or {}).get("copy")
                                if p0:
                                    for e in p0["proj"]:
                                        if isinstance(e, dict) and e.get("of") == "node::TreeNode" and e.get("name") in ("left", "right"):
                                            chosen.add(e["name"])
                                src_l = op_local(st["rv"]["use"]) if "use" in st["rv"] else None
                                if src_l is not None and b.local_name(src_l) in ("p_left", "p_right"):
                                    chosen.add("left" if b.local_name(src_l) == "p_left" else "right")
                    if len(chosen) == 1:
                        dirs.setdefault((what, side), {}).setdefault(next(iter(chosen)), []).append((b, c))
    n = 0
    for (what, side), m in sorted(dirs.items()):
        n += sum(len(v) for v in m.values())
        if len(m) == 1:
            child = next(iter(m))
            ctx.inst("L10", m[child][0][0], "descent on node %s %s searched %s" % (what, "greater than" if side == "Greater" else "less than", what), m[child][0][1].span, True,
                     "all %d descent sites go %s: %s" % (len(m[child]), child, sorted({strip_generics(b.id).rsplit("::", 1)[-1] for b, c in m[child]})))
        else:
            minority = min(m.items(), key=lambda kv: len(kv[1]))
            b, c = minority[1][0]
            ctx.inst("L10", b, "descent on node %s %s searched %s" % (what, "greater than" if side == "Greater" else "less than", what), c.span, False,
                     "%s goes to the %s child where %s go to the %s child: nodes inserted by one routine are not found by the other" % (
                         strip_generics(b.id).rsplit("::", 1)[-1], minority[0],
                         sorted({strip_generics(x.id).rsplit("::", 1)[-1] for k, v in m.items() if k != minority[0] for x, _ in v}),
                         [k for k in m if k != minority[0]][0]))
    if n < 4:
        ctx.fail_closed("L10: expected at least 8 (comparison, child) descent sites in the tree routines, found %d" % n)


def rule_l13(ctx, facts):
    """a new entry of a tree bin becomes reachable through the bin's traversal list (`first` / `next`) before it becomes reachable through
    the tree: readers fall back to the list whenever a writer holds or awaits the tree lock, so everything a tree search can find must
    already be in the list -- otherwise one lookup finds the key and a later one, which walks the list, does not"""
    b = facts.body("TreeBin::find_or_put_tree_val")
    fl = flow(b)
    fresh = [c for c in b.calls if is_fresh_alloc(b, c) and "node::BinEntry" in b.ty(c.dst_local()).get("s", "") and not b.is_cleanup(c.b)]
    if not fresh:
        ctx.fail_closed("L13: find_or_put_tree_val allocates no node")
        return
    holders = set()
    for c in fresh:
        holders |= fl.flows_to(c.dst_local())
    first_st, tree_st = set(), []
    for c in b.calls:
        if b.is_cleanup(c.b) or is_reclaim_atomic(c) not in ("store", "swap", "compare_exchange"):
            continue
        vl = op_root(c.args[1]) if len(c.args) > 1 else None
        if vl is None or vl not in holders:
            continue
        rf = receiver_field(b, c, 0)
        if ("node::TreeBin", "first") in rf:
            first_st.add(c.point)
        elif rf & {("node::TreeNode", "left"), ("node::TreeNode", "right"), ("node::TreeBin", "root")}:
            tree_st.append(c)
    if not first_st or not tree_st:
        ctx.fail_closed("L13: expected the list publication (TreeBin.first) and the tree link (left / right / root) of the new node in find_or_put_tree_val")
        return
    # readers walk the list only while a writer holds or awaits the tree lock.  So: (a) a tree link made while this writer holds the
    # lock must come after the list publication; (b) a tree link made outside the lock must be followed by the list publication before
    # the lock is taken or the function returns (from then on any writer may set the flag)
    from .rules_c18 import root_lock_fns, root_release_points
    from .analysis import return_points
    acq_ids = {x.id for x in root_lock_fns(facts)[0]}
    acqs = [c for c in b.calls if c.resolved in acq_ids and not b.is_cleanup(c.b)]
    rels = root_release_points(facts, b)
    locked = set()
    for a in acqs:
        locked |= reach(b, after(b, a.point, label="ret"), avoid=rels, unwind=False)
    unpublished = reach(b, [Point(0, 0)], avoid=first_st, unwind=False)
    early = []
    for c in tree_st:
        if c.point not in unpublished:
            continue                      # the list publication dominates it
        if c.point in locked:
            early.append((c, "while the tree write lock is held"))
            continue
        r2 = reach(b, after(b, c.point, label="ret"), avoid=first_st, unwind=False)
        if any(a.point in r2 for a in acqs) or any(rp in r2 for rp in return_points(b)):
            early.append((c, "and the tree lock is then taken, or the function returns, before it is stored into TreeBin.first"))
    ctx.inst("L13", b, "new tree node: list before tree", (early[0][0] if early else tree_st[0]).span, not early,
             "every store that links the new node into the tree under the write lock comes after its publication as the head of the bin's list; "
             "outside the lock the publication follows before the lock can be taken" if not early else
             "the new node is linked into the tree at %s %s: list-walking readers (every reader, while a writer holds or awaits the tree lock) miss "
             "a key that tree-searching readers already found" % (early[0][0].span, early[0][1]))


def rule_l14(ctx, facts, rule="L14", only=None):
    """a writer whose head re-validation fails tries again: from the `no longer the head` edge no return of the function is reachable
    without going through the header of the retry loop the lock acquisition sits in (where table and bin are read afresh).  A writer that
    gives up there reports "nothing to do" for a key that is present and untouched -- the bin was merely replaced (untreeified, moved by
    a resize) while it waited for the lock.  A region in no loop (treeify_bin: converting a bin is optional, the JDK gives up there too)
    has nothing to retry."""
    from .analysis import back_edges, loop_blocks, return_points
    n = 0
    for b in facts.bodies:
        if only is not None and b.sid not in only:
            continue
        vs = [v for v in validated_regions(b) if bin_lock_region(v.region) and v.switch is not None]
        if not vs:
            continue
        loops = [(h, loop_blocks(b, (t, h))) for t, h in back_edges(b, unwind=False)]
        for v in vs:
            r = v.region
            what = "retry after a failed re-validation (lock at %s)" % r.call.span.split(":", 1)[1]
            # the loop is the one the bin was read in (the locked arm itself is outside every natural loop when all its paths leave it)
            lbs = {c0.point[0] for c0 in v.bin_calls}
            inside = [(h, blks) for h, blks in loops if lbs & blks]
            if not inside:
                ctx.inst(rule, b, what, r.call.span, True, "the region is in no loop: nothing to retry (an optional conversion)", nontrivial=False)
                continue
            if b.sid == "map::HashMap::transfer":
                # transfer's loop is a work loop, not a retry loop of one operation: it has no result to report, and each of its returns is
                # judged by Z5 of C10 (dominated by the won `sc - 1` CAS of a participant that found nothing left to claim)
                ctx.inst(rule, b, what, r.call.span, True, "transfer returns only as a participant that is done (rule Z5)", nontrivial=False)
                continue
            n += 1
            # all the loops that contain the region share the property if the innermost does; a `continue` of an outer loop is a retry too
            heads = {h for h, _ in inside}
            out = reach(b, [Point(v.ne, 0)], avoid_blocks=heads, unwind=False)
            rets = [rp for rp in return_points(b) if rp in out]
            ctx.inst(rule, b, what, b.span_at(Point(v.switch, b.nstmts(v.switch))), not rets,
                     "the edge on which the head has changed leads back to the head of the retry loop" if not rets else
                     "when the locked node is no longer the head of its bin (validation at %s) the function can return (%s) without reading the "
                     "bin again: an operation on a key that is present and untouched is reported as having found nothing"
                     % (b.span_at(Point(v.switch, b.nstmts(v.switch))), b.span_at(rets[0])))
    return n


def run(ctx, facts):
    ctx.rule("L14", "a writer whose head re-validation fails retries: no return is reachable from the `head has changed` edge without passing the head of the retry loop", floor=8, floor_note="clear x2, put x2, compute_if_present x2, replace_node x2")
    rule_l14(ctx, facts)
    ctx.rule("L13", "a new tree-bin entry is published in the bin's list (first / next) before it is linked into the tree", floor=1)
    rule_l13(ctx, facts)
    ctx.rule("L10", "tree insertion and tree search descend to the same child for the same comparison outcome (sibling agreement)", floor=4)
    rule_l10(ctx, facts)
    ctx.rule("L9", "Table::bin(T, i) uses an index computed by T.bini(hash) for the same table value (no re-assignment of the table variable in between)", floor=5)
    rule_l9(ctx, facts)
    ctx.rule("L8", "a node's value slot is accessed, and a node is returned as found, only on the true edge of the user's key equality for that node", floor=10)
    rule_l8(ctx, facts)
    ctx.rule("L1", "every bin-lock region re-validates the head (pointer identity with a fresh Table::bin(T,i)) before any mutation", floor=11,
             floor_note="transfer x2, clear x2, put x2, compute_if_present x2, replace_node x2, treeify_bin x1")
    ctx.rule("L2", "bin contents are written only under the bin lock / on private nodes / by the empty-bin CAS / in teardown", floor=30)
    ctx.rule("L3", "transfer stores both halves into the new table before the forwarding marker", floor=2)
    ctx.rule("L4", "help_transfer's result is fed back into the writer loop's table variable", floor=4, floor_note="put, compute_if_present, replace_node, clear")
    ctx.rule("L5", "failed empty-bin CAS: node reclaimed, key restored, value kept, no count, falls into the slow path")
    ctx.rule("L6", "facade methods are single delegations; guards stay paired with their collections", floor=40)
    rule_l1(ctx, facts)
    rule_l2(ctx, facts)
    rule_l3(ctx, facts)
    rule_l4(ctx, facts)
    try:
        from .rules_c04 import rule_o3_put
        rule_o3_put(ctx, facts, as_rule="L5")
    except ImportError:
        ctx.note("L5 is evaluated by the ESP rule O3 (C04)")
    rule_l6(ctx, facts)
    ctx.rule("L7", "lock-free readers search a tree bin through the tree only under the read lock, else through the next-pointer list (rule D6)", floor=3)
    from .rules_c11 import rule_d6, rule_tree_write_lock
    rule_d6(ctx, facts, rule="L7")
    ctx.rule("L12", "the next pointer of a node being removed is not written (readers standing on it still reach the rest of the bin)", floor=3)
    rule_l12(ctx, facts)
    ctx.rule("L11", "the tree write lock is taken only from a lock word without writer and without readers", floor=2)
    rule_tree_write_lock(ctx, facts, rule="L11")
