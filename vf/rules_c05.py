"""C05 -- quiescent agreement and well-formedness (clauses).
Q1 the entry count is adjusted exactly once per link / unlink (ESP typestate) / Q2 single finisher (= Z1) / Q3 power-of-two table lengths."""
from .affine import evaluator, Aff, TOP
from .analysis import flow, regions, cond_of, reach, after, Point, back_edges, loop_blocks, held_regions_at, dominated_by_edge
from .anchors import anchors, callee_str, is_std_atomic, is_reclaim_atomic, receiver_field, is_link_load, is_fresh_alloc
from .esp import Esp, Spec
from .facts import op_root, op_local, op_int, strip_generics
from .protocol import bin_lock_region
from .rules_c07 import private_roots

PROP = "C05"
LEVEL = "other"
EXPLANATION = (
    "Clauses. Q1 (path-sensitive typestate, ESP): in put, every path on which an entry is linked (won empty-bin CAS, append of a fresh "
    "node under the lock, null return of find_or_put_tree_val) passes exactly one add_count(+1) before returning and no path counts "
    "without linking; in compute_if_present and replace_node every path that unlinks an entry (node retire in the list arm, "
    "remove_tree_node) passes exactly one add_count(-1), a mere value replacement none; clear decrements its local delta once per node it "
    "walks and hands it to add_count. Infeasible paths are pruned by tracking the flag locals the code itself branches on (old_val, "
    "removed_node, is_remove/new_value, CAS results). Hence at quiescence len() equals the number of linked entries. Q2: exactly one "
    "thread publishes a finished resize and clears the resizing state (rule Z1). Q3: every length passed to Table::new has power-of-two "
    "provenance (a power-of-two constant, next_power_of_two, min/max of such, a shift of an existing table's length, or size_ctl while "
    "the table is unallocated, which is 0 because the only constructor stores 0). Not decided: iteration = lookup, entry placement, "
    "absence of duplicate keys (values).")


class CountSpec(Spec):
    """typestate: clean -> (event) pending -> (add_count matching delta) counted"""

    def __init__(self, body, sign, call_events, edge_events, add_count_id):
        self.body = body
        self.sign = sign
        self.call_events = call_events    # {point: description}
        self.edge_events = edge_events    # {(block, target): description}
        self.add_count_id = add_count_id
        self.errors = {}
        self.ev = evaluator(body)
        self.seen_events = set()
        self.closure_while_pending = False
        self.returns_pending = False

    def initial(self):
        return "clean"

    def err(self, pt, why):
        self.errors.setdefault((pt, why), True)

    def event(self, ts, where, desc):
        self.seen_events.add(desc)
        if ts == "clean":
            return ["pending"]
        if ts == "pending":
            self.err(where, "a second entry is %s (%s) while the first is not yet counted" % ("linked" if self.sign > 0 else "unlinked", desc))
            return ["pending"]
        if ts == "counted":
            self.err(where, "an entry is %s (%s) after the count was already adjusted on this path" % ("linked" if self.sign > 0 else "unlinked", desc))
            return ["counted"]
        return [ts]

    def on_call(self, pt, c, ts, env):
        if pt in self.call_events:
            return self.event(ts, pt, self.call_events[pt])
        from .protocol import user_closure_call
        if ts == "pending" and user_closure_call(c):
            self.err(pt, "a caller-supplied closure runs between %s an entry and the adjustment of the count: if it panics, len() stays wrong for good"
                     % ("linking" if self.sign > 0 else "unlinking"))
            self.closure_while_pending = True
        if c.resolved == self.add_count_id:
            d = self.ev.operand(c.args[1])
            if d is not TOP and d.is_const():
                if (d.c > 0) != (self.sign > 0):
                    self.err(pt, "add_count(%s) has the wrong sign for this operation" % d.c)
                    return [ts]
                if abs(d.c) != 1:
                    self.err(pt, "add_count(%s): not a unit adjustment" % d.c)
                if ts == "pending":
                    return ["counted"]
                if ts == "clean":
                    self.err(pt, "add_count(%s) on a path on which no entry was %s" % (d.c, "linked" if self.sign > 0 else "unlinked"))
                    return ["clean"]
                if ts == "counted":
                    self.err(pt, "the count is adjusted twice on one path")
                    return ["counted"]
        return [ts]

    def on_edge(self, b, tb, label, ts, env):
        if (b, tb) in self.edge_events:
            return self.event(ts, self.body.term_point(b), self.edge_events[(b, tb)])
        return [ts]

    def on_return(self, pt, ts, env):
        if ts == "pending":
            self.returns_pending = True
            self.err(pt, "a path returns after an entry was %s without adjusting the count" % ("linked" if self.sign > 0 else "unlinked"))


def put_events(facts, put):
    fl = flow(put)
    calls, edges = {}, {}
    for c in put.calls:
        if put.is_cleanup(c.b):
            continue
        s = callee_str(c)
        if s.endswith("raw::Table::cas_bin"):
            # match on the result: Ok edge
            dl = c.dst_local()
            for blk in range(len(put.blocks)):
                t = put.term(blk)
                if t["k"] != "switch":
                    continue
                l = op_local(t["on"])
                if l is None:
                    continue
                for pt, kind, data in put.defs.get(l, []):
                    if kind == "assign" and "discr" in data["rv"] and not data["rv"]["discr"]["proj"] and data["rv"]["discr"]["local"] in fl.copies_of(dl):
                        for v, tb in t["targets"]:
                            if v == "0":
                                edges[(blk, tb)] = "won empty-bin CAS"
                        if not any(v == "0" for v, _ in t["targets"]):
                            edges[(blk, t["otherwise"])] = "won empty-bin CAS"
            for blk in range(len(put.blocks)):
                cd = cond_of(put, blk)
                if cd and cd["kind"] == "is_ok" and cd.get("arg") in fl.copies_of(dl):
                    edges[(blk, cd["true"])] = "won empty-bin CAS"
        elif is_reclaim_atomic(c) == "store" and ("node::Node", "next") in receiver_field(put, c, 0):
            vl = op_root(c.args[1])
            if vl is not None and not private_roots(put, vl) and any(
                    is_fresh_alloc(put, x) for x in fl.call_roots(vl) if x is not None):
                calls[c.point] = "fresh node appended"
        elif s.endswith("TreeBin::find_or_put_tree_val"):
            dl = c.dst_local()
            for blk in range(len(put.blocks)):
                cd = cond_of(put, blk)
                if cd and cd["kind"] in ("is_null", "is_none") and cd.get("arg") in fl.copies_of(dl):
                    edges[(blk, cd["true"])] = "tree insert (null returned)"
    return calls, edges


def removal_events(facts, b):
    an = anchors(facts)
    calls = {}
    for c in b.calls:
        if b.is_cleanup(c.b):
            continue
        s = callee_str(c)
        if s.endswith("TreeBin::remove_tree_node"):
            calls[c.point] = "remove_tree_node"
            continue
        k = an.is_retire(c)
        if k is not None:
            x = op_root(c.args[k])
            t = b.ty(x)
            if t.get("args") and t["args"][-1].startswith("node::BinEntry"):
                held = [r for r in regions(b) if r.may_hold_at(c.point) and ("node::Node", "lock") in r.receiver_fields()]
                if held:
                    calls[c.point] = "list node retired"
    return calls, {}


def run_count(ctx, facts, b, sign, calls, edges, min_events, lift_ok=False):
    ac = facts.body("map::HashMap::add_count")
    spec = CountSpec(b, sign, calls, edges, ac.id)
    Esp(b, spec).run()
    what = "count %s once per %s" % ("+1" if sign > 0 else "-1", "link" if sign > 0 else "unlink")
    if len(calls) + len(edges) < min_events:
        ctx.fail_closed("Q1: expected at least %d %s events in %s, found %d (%s)" % (
            min_events, "link" if sign > 0 else "unlink", strip_generics(b.id), len(calls) + len(edges), sorted(set(calls.values()) | set(edges.values()))))
        return spec
    if lift_ok and spec.errors and all("returns after an entry" in why for (_, why) in spec.errors) and not b.exported:
        return spec   # an internal helper that unlinks and leaves the counting to its callers: judged at its call sites
    if spec.errors:
        for (pt, why) in list(spec.errors)[:3]:
            ctx.inst("Q1", b, what, b.span_at(pt), False, why)
    else:
        ctx.inst("Q1", b, what, b.span, True, "%d event site(s) (%s); every path from an event passes exactly one add_count, none without" % (
            len(calls) + len(edges), ", ".join(sorted(set(calls.values()) | set(edges.values())))))
    return spec


def find_removal_bodies(facts):
    """bodies that unlink entries from the map (not the copy routines, which retire superseded copies of still-present entries)"""
    out = []
    for b in facts.bodies:
        if b.sid.endswith("TreeBin::remove_tree_node") or b.name == "clear":
            continue
        if any(callee_str(c).endswith("clone") and c.callee.get("self_ty", {}).get("base") == "reclaim::Atomic" for c in b.calls):
            continue
        c, e = removal_events(facts, b)
        if c:
            out.append((b, c, e))
    return out


def lifted_count_check(ctx, facts, uncounted, rule="Q1"):
    """helpers that unlink an entry and leave the counting to their callers: every caller adjusts the count after the call, and no
    caller-supplied closure runs in between"""
    from .callgraph import callgraph
    from .protocol import user_closure_call
    from .analysis import return_points
    cg = callgraph(facts)
    ac = facts.body("map::HashMap::add_count")
    for u in uncounted:
        callers = [(cid, via) for cid, via in cg.callers(u.id) if hasattr(via, "point")]
        if not callers:
            ctx.inst(rule, u, "unlink left uncounted", u.span, False, "%s unlinks an entry without adjusting the count and nobody calls it" % strip_generics(u.id))
        for cid, via in callers:
            g = facts.by_id[cid]
            if g.is_cleanup(via.b):
                continue
            counts = {c.point for c in g.calls if c.resolved == ac.id}
            r = reach(g, after(g, via.point, label="ret"), avoid=counts)
            clos = [c for c in g.calls if c.point in r and user_closure_call(c) and not g.is_cleanup(c.b)]
            if clos:
                ctx.inst(rule, g, "callback between unlink and count adjustment", clos[0].span, False,
                         "%s removes an entry through %s (which leaves the count to its caller) and then runs a caller-supplied closure at %s before "
                         "add_count: if the closure panics the removed entries are never subtracted and len()/is_empty() stay wrong for good"
                         % (strip_generics(g.id), strip_generics(u.id).rsplit("::", 1)[-1], clos[0].span))
            elif not counts:
                ctx.inst(rule, g, "unlink left uncounted", via.span, False, "%s removes an entry through %s but never calls add_count" % (
                    strip_generics(g.id), strip_generics(u.id).rsplit("::", 1)[-1]))
            else:
                ctx.inst(rule, g, "count adjusted after the helper", via.span, True, "add_count follows %s with no user callback in between" % strip_generics(u.id).rsplit("::", 1)[-1])


def rule_q1_clear(ctx, facts):
    cl = facts.body("map::HashMap::clear")
    ev = evaluator(cl)
    ac = facts.body("map::HashMap::add_count")
    an = anchors(facts)
    acs = [c for c in cl.calls if c.resolved == ac.id and not cl.is_cleanup(c.b)]
    if len(acs) == 0:
        ctx.inst("Q1", cl, "clear hands its delta to add_count", cl.span, False, "clear never calls add_count: the entries it removes are not subtracted from the count")
        return
    if len(acs) != 1:
        ctx.fail_closed("Q1: expected one add_count call in clear, found %d" % len(acs))
        return
    fl = flow(cl)
    # the delta is `s * D` for one tally local D (s = 1: `delta -= 1` per entry; s = -1: a positive tally negated at the call)
    F = ev.operand(acs[0].args[1])
    D = sgn = None
    if F is not TOP and F.c == 0 and len(F.terms) == 1:
        (sym, k), = F.terms.items()
        if k in (1, -1) and isinstance(sym, tuple) and sym[0] in ("phi", "local") and isinstance(sym[1], int):
            D, sgn = sym[1], k
    if D is None:
        ctx.inst("Q1", cl, "clear hands its delta to add_count", acs[0].span, False, "the delta passed to add_count is not a local counter")
        return
    decs = []
    ok_defs = True
    all_loops = [loop_blocks(cl, be) for be in back_edges(cl)]
    resets = []
    lost = []

    def tally(T, unit, top):
        """definitions of a tally: 0, `T += unit` (one entry), or `T += k * E` for a sub-tally E (a per-bin count handed back by a walk)"""
        nonlocal ok_defs
        zero, units, adds = [], [], []
        for pt, f in ev.def_forms(T):
            if f is TOP:
                ok_defs = False
                continue
            if f.is_const() and f.c == 0:
                zero.append(pt)
                continue
            g = f - Aff.sym(("phi", T))
            if g.is_const() and g.c == unit:
                units.append(pt)
            elif g.c == 0 and len(g.terms) == 1:
                (sym, k), = g.terms.items()
                if isinstance(sym, tuple) and sym[0] in ("phi", "local") and isinstance(sym[1], int) and sym[1] != T and k in (1, -1):
                    adds.append((pt, sym[1], unit * k))
                else:
                    ok_defs = False
            else:
                ok_defs = False
        decs.extend(units)
        own = [L for L in all_loops if any(u[0] in L for u in units)]
        for z in zero:
            if top and any(z[0] in L for L in all_loops):
                resets.append(z)     # the tally is reset while the walk is in progress: removals counted so far are forgotten
            elif not top and own and z[0] in min(own, key=len):
                resets.append(z)
        for pt, E, u in adds:
            if E in seen_t:
                ok_defs = False
                continue
            seen_t.add(E)
            ez, eu = tally(E, u, False)
            # what the walk counted reaches the total: from a count of E, the next reset of E and the add_count call are only reached
            # through an addition of E into its parent
            into = {p for p, e, _ in adds if e == E}
            for up in eu:
                r = reach(cl, after(cl, up, label="normal"), avoid=into)
                if acs[0].point in r or any(z in r for z in ez):
                    lost.append(up)
        return zero, units
    seen_t = {D}
    tally(D, -sgn, True)
    if lost:
        ctx.inst("Q1", cl, "per-bin count reaches the total", cl.span_at(lost[0]), False,
                 "the entries counted at %s are not added to the total on every path to add_count" % cl.span_at(lost[0]))
    ctx.inst("Q1", cl, "delta is 0 minus one per entry", cl.span_at(resets[0]) if resets else acs[0].span, ok_defs and len(decs) >= 2 and not resets,
             "delta starts at 0 before the walk and only ever decrements by one (%d sites)" % len(decs) if ok_defs and decs and not resets else
             ("the removal tally is reset to 0 inside the walk at %s: entries already removed (e.g. before following a forwarding marker) are never "
              "subtracted from the count" % cl.span_at(resets[0]) if resets else "delta is updated by something other than `-= 1`"))
    # one decrement per ENTRY: at every nesting level of the walk, the sites that decrement the tally pair with the sites that retire a
    # value (each entry has exactly one value; containers -- the TreeBin of a tree bin -- have none)
    inner_loops = []
    for be in back_edges(cl):
        L = loop_blocks(cl, be)
        if not any(c.b in L for c in cl.calls if c in [r.call for r in regions(cl)]):
            inner_loops.append(frozenset(L))

    def level(blk):
        ins = [L for L in inner_loops if blk in L]
        return min(ins, key=len) if ins else "outer"
    vret = {}
    for c in cl.calls:
        k = an.is_retire(c)
        if k is None or cl.is_cleanup(c.b) or k >= len(c.args) or op_root(c.args[k]) is None:
            continue
        targs = cl.ty(op_root(c.args[k])).get("args", [""])
        if targs and targs[-1] == "V":
            vret.setdefault(level(c.b), []).append(c)
    dlev = {}
    for pt in decs:
        dlev.setdefault(level(pt[0]), []).append(pt)
    # per bin (outside the walk loops): an entry handled there has its value retired there -- the list head; the TreeBin container has
    # no value and is not an entry.  Inside a walk loop: exactly one decrement site per visited node.
    nd, nv = len(dlev.get("outer", [])), len(vret.get("outer", []))
    where = cl.span_at(dlev["outer"][-1]) if dlev.get("outer") else (vret["outer"][0].span if vret.get("outer") else cl.span)
    ctx.inst("Q1", cl, "one decrement per entry (per bin)", where, nd == nv,
             "%d decrement site(s) outside the walk loops pair with %d value retirement(s) there" % (nd, nv) if nd == nv else
             "%d site(s) outside the walk loops decrement the removal tally but %d value(s) are retired there: something that is not an entry "
             "(e.g. the TreeBin container) is counted, or an entry is not -- len() stays wrong once the map is used again" % (nd, nv))
    for lv, pts in dlev.items():
        if lv == "outer":
            continue
        ctx.inst("Q1", cl, "one decrement per entry (walk loop)", cl.span_at(pts[-1]), len(pts) == 1,
                 "one decrement site per visited node" if len(pts) == 1 else "%d sites decrement the tally in one iteration of a node walk" % len(pts))
    # every cycle of a node-walking inner loop decrements; the list-arm head is counted once
    n_loops = 0
    for be in back_edges(cl):
        L = loop_blocks(cl, be)
        if any(c.b in L for c in cl.calls if c in [r.call for r in regions(cl)]):
            continue  # outer loop
        walks = [c for c in cl.calls if c.b in L and is_link_load(c) == "load" and ("node::Node", "next") in receiver_field(cl, c, 0)]
        if not walks:
            continue
        n_loops += 1
        outside = [x for x in range(len(cl.blocks)) if x not in L]
        r = reach(cl, [Point(be[1], 0)], avoid=set(decs), avoid_blocks=outside)
        ok = cl.term_point(be[0]) not in r
        ctx.inst("Q1", cl, "walk loop decrements per node", cl.term(be[1])["span"], ok,
                 "every iteration of the node walk decrements delta" if ok else "an iteration of the node walk at %s does not decrement delta" % cl.term(be[1])["span"])
    for r in regions(cl):
        if ("node::Node", "lock") in r.receiver_fields():
            # after the unlink (store_bin null) every path back to the outer loop passes a decrement outside the inner loops for the head itself
            stores = [c for c in cl.calls if c.point in r.points and callee_str(c).endswith("store_bin")]
            for s in stores:
                locks = {rr.call.point for rr in regions(cl)}
                retires = [c for c in cl.calls if an.is_retire(c) is not None and c.point in reach(cl, after(cl, s.point, label="ret"), avoid=locks)
                           and cl.ty(op_root(c.args[an.is_retire(c)])).get("args", [""])[-1].startswith("node::BinEntry")]
                heads = [c for c in retires if not any(c.b in loop_blocks(cl, be) for be in back_edges(cl) if not any(
                    rr.call.b in loop_blocks(cl, be) for rr in regions(cl)))]
                for h in heads:
                    nxt = reach(cl, after(cl, h.point, label="ret"), avoid=set(decs))
                    back_to_loop = any(rr.call.point in nxt for rr in regions(cl)) or any(p in nxt for p in [acs[0].point])
                    ctx.inst("Q1", cl, "head node counted", h.span, not back_to_loop,
                             "the head node's removal is counted before the next bin" if not back_to_loop else "the head node of a list bin is retired without decrementing delta")
    if n_loops < 2:
        ctx.fail_closed("Q1: expected the two node-walk loops of clear, found %d" % n_loops)


_POW2_BUSY = set()


def pow2(body, op, facts, depth=0, seen=None, at=None, needs=None):
    """(is power of two by provenance, description).  `needs` (a set, when given) collects the parameters of `body` the verdict
    depends on: the caller has to show the same for the operands it passes."""
    needs_out = needs
    seen = seen if seen is not None else set()
    if depth > 12:
        return False, "too deep"
    if "const" in op:
        v = op.get("int")
        if v is None:
            return False, "non-integer constant"
        return (v > 0 and v & (v - 1) == 0), "constant %d" % v
    l = op_local(op)
    if l is None:
        return False, "projection"
    if l in seen:
        return True, "cyclic"
    seen = seen | {l}
    fl = flow(body)
    descs = []
    live = None
    if at is not None:
        live = {d[0] for d in fl.reaching_defs(l, at)}
    for kind, data, pt in fl.sources(l):
        if live is not None and pt not in live:
            continue
        if kind == "copy":
            ok, d = pow2(body, {"copy": {"local": data, "proj": []}}, facts, depth + 1, seen, at=pt, needs=needs_out)
        elif kind == "const":
            ok, d = pow2(body, data, facts, depth + 1, seen, at=pt, needs=needs_out)
        elif kind == "field":
            # (x op y).0 of checked arithmetic
            ok, d = False, "arithmetic result"
            for p2, k2, d2 in body.defs.get(data["local"], []):
                if k2 == "assign" and "bin" in d2["rv"]:
                    ok, d = pow2_bin(body, d2["rv"], facts, depth, seen, at=p2, needs=needs_out)
        elif kind == "view":
            # the payload of a checked conversion / checked arithmetic (`.expect(..)`, `.unwrap()`): as the Option / Result it came from
            ok, d = pow2(body, {"copy": {"local": data[1], "proj": []}}, facts, depth + 1, seen, at=pt, needs=needs_out)
        elif kind == "call" and callee_str(data).rsplit("::", 1)[-1] in ("expect", "unwrap", "unwrap_unchecked") and data.args and \
                callee_str(data).rsplit("::", 2)[-2:-1] in (["Result"], ["Option"]):
            ok, d = pow2(body, data.args[0], facts, depth + 1, seen, at=pt, needs=needs_out)
        elif kind == "call" and callee_str(data).rsplit("::", 1)[-1] in ("try_from", "try_into", "from", "into") and len(data.args) == 1:
            ok, d = pow2(body, data.args[0], facts, depth + 1, seen, at=pt, needs=needs_out)      # value-preserving where it succeeds
        elif kind == "call" and callee_str(data).rsplit("::", 1)[-1] in ("checked_mul", "checked_shl", "wrapping_mul", "wrapping_shl") and len(data.args) == 2:
            k = data.args[1].get("int")
            nm = callee_str(data).rsplit("::", 1)[-1]
            okk = k is not None and (nm.endswith("shl") or (k > 0 and k & (k - 1) == 0))
            ok, d = pow2(body, data.args[0], facts, depth + 1, seen, at=pt, needs=needs_out)
            ok, d = ok and okk, "(%s).%s(%s)" % (d, nm, k)
        elif kind == "call":
            c = data
            s = callee_str(c)
            if s.endswith("::next_power_of_two"):
                ok, d = True, "next_power_of_two()"
            elif s.endswith("cmp::min") or s.endswith("cmp::max") or s.endswith("Ord::max") or s.endswith("Ord::min") or s.endswith("::max") or s.endswith("::min"):
                rs = [pow2(body, a, facts, depth + 1, seen, at=pt, needs=needs_out) for a in c.args]
                ok, d = all(r[0] for r in rs), "%s(%s)" % (s.rsplit("::", 1)[-1], ", ".join(r[1] for r in rs))
            elif s.endswith("raw::Table::len"):
                ok, d = True, "length of an existing table (inductive)"
            elif is_std_atomic(c) == "load" and ("map::HashMap", "size_ctl") in receiver_field(body, c, 0):
                ok, d = True, "size_ctl while the table is unallocated (aux: 0)"
            elif facts.by_id.get(c.resolved) is not None and facts.by_id[c.resolved].kind != "Closure":
                # a crate function: its returned value must have power-of-two provenance, given that of the arguments it depends on
                tb = facts.by_id[c.resolved]
                key = ("pow2sum", tb.id)
                if key in _POW2_BUSY:
                    ok, d = True, "recursive"
                else:
                    _POW2_BUSY.add(key)
                    try:
                        needs = set()
                        ok, d = pow2(tb, {"copy": {"local": 0, "proj": []}}, facts, depth + 1, set(), at=None, needs=needs)
                        d = "%s(..) returns %s" % (strip_generics(tb.id).rsplit("::", 1)[-1], d)
                        for k in sorted(needs):
                            if not ok or k - 1 >= len(c.args):
                                ok = False
                                break
                            ok2, d2 = pow2(body, c.args[k - 1], facts, depth + 1, seen, at=pt, needs=needs_out)
                            ok = ok and ok2
                            d += " with arg%d = %s" % (k, d2)
                    finally:
                        _POW2_BUSY.discard(key)
            else:
                ok, d = False, "result of %s" % s
        elif kind == "other" or kind == "assign":
            ok, d = False, "?"
        elif kind == "arg" and needs_out is not None:
            needs_out.add(data)
            ok, d = True, "parameter %d" % data
        else:
            ok, d = False, kind
        # casts and shifts arrive as 'other' statements: handle through defs
        if kind == "other":
            st = data
            if "bin" in st["rv"]:
                ok, d = pow2_bin(body, st["rv"], facts, depth, seen, at=pt, needs=needs_out)
        descs.append((ok, d))
    if not descs:
        return False, "undefined"
    return all(o for o, _ in descs), " | ".join(d for _, d in descs)


def pow2_bin(body, rv, facts, depth, seen, at=None, needs=None):
    op = rv["bin"].replace("WithOverflow", "").replace("Unchecked", "")
    if op == "Shl":
        ok, d = pow2(body, rv["a"], facts, depth + 1, seen, at=at, needs=needs)
        return ok and rv["b"].get("int") is not None, "(%s) << %s" % (d, rv["b"].get("int"))
    if op == "Mul":
        for x, y in ((rv["a"], rv["b"]), (rv["b"], rv["a"])):
            k = y.get("int")
            if k is not None and k > 0 and k & (k - 1) == 0:
                ok, d = pow2(body, x, facts, depth + 1, seen, at=at, needs=needs)
                return ok, "(%s) * %s" % (d, k)
    return False, "%s arithmetic" % op


def rule_q3(ctx, facts):
    n = 0
    for b in facts.bodies:
        for c in b.calls:
            if callee_str(c).endswith("raw::Table::new") and not b.is_cleanup(c.b):
                n += 1
                ok, d = pow2(b, c.args[0], facts, at=c.point)
                ctx.inst("Q3", b, "Table::new length", c.span, ok, "power-of-two provenance: %s" % d[:200] if ok else
                         "the table length has no power-of-two provenance (%s): bini()'s mask would skip bins" % d[:200])
    # auxiliary invariant: the only constructor stores size_ctl = 0 and table = null
    wh = facts.body("map::HashMap::with_hasher")
    ok = False
    for c in wh.calls:
        if callee_str(c).endswith("Atomic::<isize>::new") or callee_str(c).endswith("AtomicIsize::new") or callee_str(c).endswith("atomic::Atomic::new"):
            pass
    zeros = [c for c in wh.calls if "atomic" in callee_str(c) and callee_str(c).endswith("::new") and c.args and c.args[0].get("int") == 0]
    ctx.inst("Q3", wh, "aux: constructor stores size_ctl = 0", wh.span, len(zeros) >= 3,
             "count, size_ctl and transfer_index are created as 0" if len(zeros) >= 3 else "with_hasher does not initialise the control words with 0")
    ctors = []
    for b in facts.bodies:
        for blk in b.blocks:
            for st in blk["stmts"]:
                if st["k"] == "assign" and "agg" in st["rv"] and st["rv"]["agg"].get("adt") == "map::HashMap":
                    ctors.append(b)
    only = {strip_generics(x.id) for x in ctors}
    ctx.inst("Q3", "map::HashMap", "aux: single constructor", "src/map.rs", only == {"map::HashMap::with_hasher"},
             "HashMap is only ever built in with_hasher" if only == {"map::HashMap::with_hasher"} else "HashMap values are built in %s" % sorted(only))


def rule_q4(ctx, facts):
    """split by the hash bit: entries with hash & n == 0 go to bin i of the new table, the others to bin i + n"""
    from .analysis import dominators, dominates
    from .affine import canon_place
    tr = facts.body("map::HashMap::transfer")
    ev = evaluator(tr)
    fl = flow(tr)
    # hash-bit values: BitAnd(hash, n)
    bitvals = {}
    bad_mask = []
    for bi, blk in enumerate(tr.blocks):
        if blk["cleanup"]:
            continue
        for si, st in enumerate(blk["stmts"]):
            if st["k"] == "assign" and st["rv"].get("bin") == "BitAnd" and not st["dst"]["proj"]:
                ops = [st["rv"]["a"], st["rv"]["b"]]
                forms = [ev.operand(o) for o in ops]
                is_hash = [f is not TOP and len(f.symbols()) == 1 and next(iter(f.symbols()))[0] == "place" and next(iter(f.symbols()))[2][-1:] == ("hash",) for f in forms]
                if not any(is_hash):
                    continue
                other = forms[1] if is_hash[0] else forms[0]
                okn = other is not TOP and len(other.symbols()) == 1 and other.c == 0 and all(
                    s0[0] == "call" and callee_str(tr.call_at(s0[1])).endswith("Table::len") and v == 1 for s0, v in other.terms.items())
                if okn:
                    bitvals[st["dst"]["local"]] = st["span"]
                else:
                    bad_mask.append((st["span"], other.show(tr) if other is not TOP else "?"))
    for span, m in bad_mask:
        ctx.inst("Q4", tr, "hash bit mask", span, False, "a node's hash is masked with %s instead of the old table length n: the split no longer separates index i from i + n" % m)
    if len(bitvals) < 4 and not bad_mask:
        ctx.fail_closed("Q4: expected the four `hash & n` computations of transfer, found %d" % len(bitvals))
        return
    # named locals that carry such a bit (run_bit, b)
    carriers = set(bitvals)
    for l in range(len(tr.locals)):
        for kind, data, pt in fl.sources(l):
            if kind == "copy" and data in carriers:
                carriers.add(l)
    changed = True
    while changed:
        changed = False
        for l in range(len(tr.locals)):
            if l in carriers:
                continue
            srcs = fl.sources(l)
            if srcs and all(kind == "copy" and data in carriers for kind, data, pt in srcs):
                carriers.add(l)
                changed = True
    low, high = set(), set()
    n_tests = 0
    idom_ok = lambda a, b: dominates(tr, Point(a, 0), Point(b, 0), unwind=False)
    for blk in range(len(tr.blocks)):
        cd = cond_of(tr, blk)
        if not cd or cd["kind"] != "cmp":
            continue
        la, lb = op_local(cd["a"]), op_local(cd["b"])
        fa, fb = ev.operand(cd["a"]), ev.operand(cd["b"])
        # the bit is unsigned: `x == 0`, `x < 1`, `x <= 0` say "zero"; `x != 0`, `x >= 1`, `x > 0` say "set" (either operand order)
        op, k = cd["op"], None
        if la in carriers and fb is not TOP and fb.is_const():
            k = fb.c
        elif lb in carriers and fa is not TOP and fa.is_const():
            k = fa.c
            op = {"Lt": "Gt", "Le": "Ge", "Gt": "Lt", "Ge": "Le"}.get(op, op)
        if k is None:
            continue
        if (op, k) in (("Eq", 0), ("Lt", 1), ("Le", 0)):
            zero, nonzero = cd["true"], cd["false"]
        elif (op, k) in (("Ne", 0), ("Ge", 1), ("Gt", 0)):
            zero, nonzero = cd["false"], cd["true"]
        else:
            continue
        n_tests += 1
        for tgt, acc in ((zero, low), (nonzero, high)):
            other = nonzero if tgt == zero else zero
            for b2 in range(len(tr.blocks)):
                if tr.is_cleanup(b2) or not dominated_by_edge(tr, Point(b2, 0), [(blk, tgt)]):
                    continue
                for st in tr.blocks[b2]["stmts"]:
                    if st["k"] != "assign":
                        continue
                    if not st["dst"]["proj"] and tr.local_name(st["dst"]["local"]):
                        acc.add(st["dst"]["local"])
                    rv = st["rv"]
                    if "ref" in rv and rv.get("mut") and not rv["ref"]["proj"] and tr.local_name(rv["ref"]["local"]):
                        acc.add(rv["ref"]["local"])
                c = tr.call_at(b2)
                if c is not None and c.dst_local() is not None and tr.local_name(c.dst_local()):
                    acc.add(c.dst_local())
    both = low & high
    # run_bit itself and loop-local temporaries are assigned on both sides; what matters are the list heads
    ptr = lambda l: tr.ty(l).get("base") == "reclaim::Shared" and tr.ty(l).get("refs", 0) == 0
    lowp, highp = {l for l in low - both if ptr(l)}, {l for l in high - both if ptr(l)}
    amb = {l for l in both if ptr(l)}
    if n_tests < 3:
        ctx.fail_closed("Q4: expected at least three tests of the hash bit against 0 in transfer, found %d" % n_tests)
        return
    ctx.inst("Q4", tr, "low / high lists are fed from opposite edges of the hash-bit test", tr.span, bool(lowp) and bool(highp) and not amb,
             "zero edge feeds %s, non-zero edge feeds %s" % (sorted({tr.local_name(l) for l in lowp}), sorted({tr.local_name(l) for l in highp})) if lowp and highp and not amb else
             "the list(s) %s receive nodes on both edges of the `hash & n == 0` test: entries of both halves end up in one bin" % sorted({tr.local_name(l) for l in amb}))

    def named_sources(l, depth=0, seen=None):
        seen = seen if seen is not None else set()
        out = set()
        stack = [l]
        while stack:
            x = stack.pop()
            if x in seen:
                continue
            seen.add(x)
            if tr.local_name(x) and ptr(x):
                out.add(x)
            roots, locs = fl.roots(x)
            for y in locs:
                if tr.local_name(y) and ptr(y):
                    out.add(y)
            for r in roots:
                if r[0] == "call":
                    c = tr.call_at(r[1])
                    for a in c.args:
                        ar = op_root(a)
                        if ar is not None and (ptr(ar) or tr.ty(ar).get("base") in ("node::TreeBin", "node::BinEntry")):
                            stack.append(ar)
        return out
    fwd_old = None
    for c in tr.calls:
        if not callee_str(c).endswith("raw::Table::store_bin") or tr.is_cleanup(c.b):
            continue
        idx = ev.operand(c.args[1])
        vl = op_root(c.args[2])
        if idx is TOP or vl is None:
            continue
        srcs = named_sources(vl)
        has_len = any(s0[0] == "call" and callee_str(tr.call_at(s0[1])).endswith("Table::len") for s0 in idx.symbols())
        is_moved = any(callee_str(x).endswith("get_moved") for x in fl.call_roots(vl) if x is not None)
        if is_moved:
            continue
        if has_len:
            ok = bool(srcs & highp) and not (srcs & lowp)
            ctx.inst("Q4", tr, "bin i + n receives the non-zero half", c.span, ok,
                     "value derives from %s" % sorted({tr.local_name(l) for l in srcs & highp}) if ok else
                     "the bin at index i + n is filled from %s, the list that collects the entries with hash & n == 0" % sorted({tr.local_name(l) for l in srcs & lowp}) if srcs & lowp else
                     "the value stored at i + n does not derive from the list fed on the non-zero edge")
        else:
            ok = bool(srcs & lowp) and not (srcs & highp)
            ctx.inst("Q4", tr, "bin i receives the zero half", c.span, ok,
                     "value derives from %s" % sorted({tr.local_name(l) for l in srcs & lowp}) if ok else
                     "the bin at index i is filled from %s, the list that collects the entries with hash & n != 0" % sorted({tr.local_name(l) for l in srcs & highp}) if srcs & highp else
                     "the value stored at i does not derive from the list fed on the zero edge")


def rule_q5(ctx, facts):
    """the observers report the counter: HashMap::len returns the `count` word (0 when it is transiently negative) and is_empty is
    len() == 0 -- so at a quiescent point len / is_empty agree with what Q1 counted"""
    from .affine import evaluator, Aff, TOP
    CNT = ("map::HashMap", "count")
    lens = [b for b in facts.bodies if b.sid.endswith("map::HashMap::len") or b.sid == "map::HashMap::len"]
    emp = [b for b in facts.bodies if b.sid.endswith("map::HashMap::is_empty")]
    if len(lens) != 1 or len(emp) != 1:
        ctx.fail_closed("Q5: HashMap::len / HashMap::is_empty not found")
        return
    b = lens[0]
    ev = evaluator(b)
    loads = [c for c in b.calls if is_std_atomic(c) == "load" and CNT in receiver_field(b, c, 0)]
    forms = ev.def_forms(0)
    # a returned local with several definitions (`match r { Ok(t) => t, Err(_) => 0 }` once `unwrap_or` is expanded): judged per definition
    for _ in range(3):
        out = []
        for pt, f in forms:
            if f is not TOP and f.c == 0 and len(f.terms) == 1 and list(f.terms.values())[0] == 1 and list(f.terms)[0][0] == "phi":
                out += ev.def_forms(list(f.terms)[0][1])
            else:
                out.append((pt, f))
        forms = out
    ok = bool(loads) and bool(forms)
    why = []

    def is_counter(op):
        g = ev.operand(op)
        return g is not TOP and any(g == Aff.sym(("call", l.b)) for l in loads)

    def clamped(f):
        """library spellings of `if n < 0 { 0 } else { n as usize }`: usize::try_from(n).unwrap_or(0) / n.try_into().unwrap_or_default()
        / n.max(0) as usize"""
        if f.c != 0 or len(f.terms) != 1:
            return False
        (sym, k), = f.terms.items()
        if k != 1 or sym[0] != "call":
            return False
        c = b.call_at(sym[1])
        if c is None:
            return False
        s = callee_str(c)
        from .affine import const_val
        if s.endswith(("Result::unwrap_or", "Option::unwrap_or", "Result::unwrap_or_default", "Option::unwrap_or_default")):
            if s.endswith("unwrap_or") and not (len(c.args) == 2 and const_val(b, c.args[1]) == 0):
                return False
            inner = [x for x in flow(b).call_roots(op_root(c.args[0])) if x is not None]
            return len(inner) == 1 and callee_str(inner[0]).rsplit("::", 1)[-1] in ("try_from", "try_into") and \
                "Result<usize," in str(b.ty(op_root(c.args[0])).get("s", "")) and is_counter(inner[0].args[0])
        if s.endswith(("cmp::Ord::max", "cmp::max")) and len(c.args) == 2:
            return (is_counter(c.args[0]) and const_val(b, c.args[1]) == 0) or (is_counter(c.args[1]) and const_val(b, c.args[0]) == 0)
        return False
    for pt, f in forms:
        if f is TOP:
            ok = False
            why.append("a returned value is not a function of the counter")
        elif f.is_const():
            if f.c != 0:
                ok = False
                why.append("returns the constant %s" % f.c)
            else:
                # 0 only where the counter was seen to be <= 0 (any spelling of the comparison)
                from .affine import le_at
                g = any(le_at(b, pt, Aff.sym(("call", l.b)), 0) is not None for l in loads)
                if not g:
                    # ... or on the Err arm of `usize::try_from(counter)` (the conversion fails exactly for negative values)
                    from .analysis import cond_of as _cond_of
                    for blk2 in range(len(b.blocks)):
                        cd2 = _cond_of(b, blk2)
                        if cd2 and cd2["kind"] in ("is_ok", "is_err") and cd2.get("arg") is not None:
                            srcs = [x for x in flow(b).call_roots(cd2["arg"]) if x is not None]
                            if len(srcs) == 1 and callee_str(srcs[0]).rsplit("::", 1)[-1] in ("try_from", "try_into") and is_counter(srcs[0].args[0]):
                                err_edge = (blk2, cd2["false"] if cd2["kind"] == "is_ok" else cd2["true"])
                                if dominated_by_edge(b, Point(pt[0], pt[1]), [err_edge]):
                                    g = True
                if not g:
                    ok = False
                    why.append("returns 0 on a path where the counter was not seen to be <= 0")
        elif not any(f == Aff.sym(("call", l.b)) for l in loads) and not clamped(f):
            ok = False
            why.append("returns %s, not the counter" % f.show(b))
    ctx.inst("Q5", b, "len() is the counter", b.span, ok, "returns count.load(), 0 when negative" if ok else "; ".join(why) or "no load of `count`")
    e = emp[0]
    ev = evaluator(e)
    lc = [c for c in e.calls if c.resolved == b.id]
    ok = False
    for pt, kind, data in e.defs.get(0, []):
        if kind == "assign" and data["rv"].get("bin") in ("Eq", "Le", "Lt", "Ge", "Gt"):
            op = data["rv"]["bin"]
            x, y = ev.operand(data["rv"]["a"]), ev.operand(data["rv"]["b"])
            if x is TOP or y is TOP:
                continue
            if x.is_const() and not y.is_const():
                x, y, op = y, x, {"Lt": "Gt", "Le": "Ge", "Gt": "Lt", "Ge": "Le"}.get(op, op)
            # len() is unsigned: len == 0, len <= 0, len < 1 are one predicate
            if y.is_const() and any(x == Aff.sym(("call", c.b)) for c in lc) and ((op in ("Eq", "Le") and y.c == 0) or (op == "Lt" and y.c == 1)):
                ok = True
    ctx.inst("Q5", e, "is_empty() is len() == 0", e.span, ok, "len() == 0" if ok else "is_empty is not defined as len() == 0: it can disagree with len at a quiescent point")


def rule_q9(ctx, facts, rule="Q9"):
    """the entry counter only ever changes by the delta its caller passed: every write to `HashMap.count` is a `fetch_add` / `fetch_sub`,
    and in add_count what the RMW leaves in memory is `old + n` for the parameter n (abs() resolved by the sign fact of the enclosing
    branch).  A counter that saturates, is stored, swapped or updated conditionally loses adjustments: put links before it counts, so the
    count is legitimately negative for a moment when a removal is counted before the insert it undoes."""
    from .anchors import is_std_atomic, receiver_field
    from .affine import evaluator, Aff, TOP
    from .rules_c14 import sign_fact
    n = 0
    for b in facts.bodies:
        for c in b.calls:
            kind = is_std_atomic(c)
            if kind is None or kind in ("load", "new", "get_mut", "into_inner") or b.is_cleanup(c.b):
                continue
            if ("map::HashMap", "count") not in receiver_field(b, c, 0):
                continue
            n += 1
            what = "%s on the entry counter" % kind
            if kind not in ("fetch_add", "fetch_sub"):
                ctx.inst(rule, b, what, c.span, False,
                         "the entry counter is written by %s, not by an unconditional addition of the delta: an adjustment can be swallowed or "
                         "overwritten, and len() then disagrees with the entries for good" % kind)
                continue
            ev = evaluator(b)
            d = ev.operand(c.args[1])
            if d is TOP:
                ctx.inst(rule, b, what, c.span, True, "delta not affine; not judged", nontrivial=False)
                continue
            for sy in list(d.symbols()):
                if sy[0] == "call":
                    cc = b.call_at(sy[1])
                    if cc is not None and callee_str(cc).endswith("::abs"):
                        inner = ev.operand(cc.args[0])
                        if inner is not TOP and len(inner.symbols()) == 1 and inner.c == 0:
                            s0 = next(iter(inner.symbols()))
                            sg = sign_fact(b, c.point, s0)
                            if sg is not None and sg != 0:
                                d = d.subst(sy, inner.scale(sg))
            eff = d if kind == "fetch_add" else d.scale(-1)
            params = [Aff.sym(("arg", k)) for k in range(1, b.nargs + 1) if b.ty(k).get("s") == "isize"]
            ok = any(eff == p for p in params) if params else True
            ctx.inst(rule, b, what, c.span, ok,
                     "memory becomes old + %s: the delta the caller passed" % eff.show(b) if ok else
                     "the RMW changes the counter by %s, which is not the delta parameter" % eff.show(b))
    if n < 1:
        ctx.fail_closed("%s: expected an RMW of add_count on HashMap.count, found %d" % (rule, n))


def rule_q1_all(ctx, facts, rule="Q1"):
    """Q1 over put, every body that unlinks entries, and clear; under another rule name when a sibling property shares the clause"""
    before = len(ctx.instances)
    put = facts.body("map::HashMap::put")
    c, e = put_events(facts, put)
    run_count(ctx, facts, put, +1, c, e, 3)
    removal_bodies = find_removal_bodies(facts)
    if len(removal_bodies) < 2:
        ctx.fail_closed("Q1: expected at least two bodies that unlink entries (compute_if_present, replace_node), found %d" % len(removal_bodies))
    uncounted = []
    for b, c, e in removal_bodies:
        spec = run_count(ctx, facts, b, -1, c, e, 2, lift_ok=True)
        if spec is not None and spec.returns_pending and not b.exported and all("returns after an entry" in why for (_, why) in spec.errors):
            uncounted.append(b)
    lifted_count_check(ctx, facts, uncounted)
    rule_q1_clear(ctx, facts)
    if rule != "Q1":
        for i in ctx.instances[before:]:
            if i.rule == "Q1":
                i.rule = rule


def run(ctx, facts):
    ctx.rule("Q9", "the entry counter changes only by the delta passed to add_count: every write to HashMap.count is fetch_add / fetch_sub of "
                   "that delta (no saturation, store, swap or conditional update)", floor=1,
             floor_note="two on the pinned tree (one per sign); a single fetch_add(n) for both signs is as good")
    rule_q9(ctx, facts)
    ctx.rule("Q8", "iteration visits every node of a bin: NodeIter::next yields the successor of the last node whenever the link is non-null "
                   "(rule T5 of C07) -- otherwise iteration yields fewer keys than len() counts and lookups find", floor=3)
    from .rules_c07 import rule_t5
    rule_t5(ctx, facts, rule="Q8")
    ctx.rule("Q7", "lock -> re-validate the head -> only then link / unlink / count (rule L1 of C01): a removal made on a bin that a resize has "
                   "already split is counted but its copy survives in the new table", floor=11)
    from .rules_c01 import rule_l1
    rule_l1(ctx, facts, rule="Q7")
    ctx.rule("Q6", "entries are linked / unlinked and bins replaced only under the bin lock (rule L2 of C01): otherwise an insert can land in a bin "
                   "that is being replaced, is counted, and is found by neither lookup nor iteration", floor=30)
    from .rules_c01 import rule_l2
    rule_l2(ctx, facts, rule="Q6")
    ctx.rule("Q5", "len() returns the counter (clamped at 0) and is_empty() is len() == 0", floor=2)
    rule_q5(ctx, facts)
    ctx.rule("Q4", "transfer splits a bin by the bit `hash & n`: the zero half is stored at index i of the new table, the other half at i + n", floor=5)
    rule_q4(ctx, facts)
    ctx.rule("Q1", "the entry count is adjusted exactly once per link (put) / unlink (compute_if_present, replace_node, clear), on every feasible path", floor=6)
    ctx.rule("Q2", "single finisher and complete publication (rule Z1)", floor=2)
    ctx.rule("Q3", "every Table::new length has power-of-two provenance", floor=5, floor_note="init_table, presize, try_presize, transfer + aux")
    rule_q1_all(ctx, facts)
    from .rules_c10 import rule_z1
    before = len(ctx.instances)
    rule_z1(ctx, facts)
    for i in ctx.instances[before:]:
        i.rule = "Q2"
    rule_q3(ctx, facts)
