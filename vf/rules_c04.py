"""C04 -- every key and value is destroyed exactly once (clauses).
O1 no dropped owner / O2 shared values => containers freed without values / O3 put value typestate (ESP; also L5 of C01) /
O4 removed value retired exactly once (ESP) / O5 teardown covers every variant."""
from .analysis import flow, regions, cond_of, reach, after, Point, return_points, back_edges, dominated_by_edge
from .anchors import anchors, callee_str, is_std_atomic, is_reclaim_atomic, receiver_field, is_shared_write, is_link_load, is_fresh_alloc
from .callgraph import callgraph
from .esp import Esp, Spec
from .facts import op_root, op_local, op_int, strip_generics, place_fields

PROP = "C04"
LEVEL = "other"
EXPLANATION = (
    "Clauses: the ownership discipline at each site where ownership of a heap object changes hands (Shared is Copy, so rustc does not "
    "enforce any of this). O1: the result of every Atomic::swap is retired, freed, returned or asserted null on every path; every "
    "Shared::boxed result has a consumer (publication, constructor, free); the private node of a failed empty-bin CAS is reclaimed on "
    "every path from the failure edge. O2: where value pointers are shared between old and new nodes (transfer, treeify_bin, untreeify and "
    "the callers that replace a tree bin by untreeify's result) no shared value is retired, tree nodes are dropped without their values, "
    "and a superseded tree bin is released by defer_drop_without_values, never by plain retire_shared (whose reclaimer drops the values); "
    "the bool constants at TreeBin::drop / the deferred closure are checked. O3 (ESP): in put the boxed value is Owned -> Published | "
    "Returned; every return of Exists has Returned it exactly once and never Published, Inserted/Replaced have Published exactly once; on "
    "every loop back edge it is still Owned. O4 (ESP): in compute_if_present / replace_node a removed or replaced entry's value is retired "
    "exactly once: by remove_tree_node when it is told to (drop_value = true) and did not ask for untreeify, otherwise by the caller. O5: "
    "HashMap::drop reaches Table::drop_bins, whose match frees node, value and chain for Node, drops the TreeBin (with values) for Tree and "
    "skips Moved; Table::drop frees the shared forwarding node. Not decided: drop counts over all concurrent histories.")


# ------------------------------------------------------------------------------------------------ O1

def consumers(body, facts, locs):
    """points that consume (take over / dispose of) a Shared held in one of `locs`"""
    an = anchors(facts)
    out = {}
    for c in body.calls:
        if body.is_cleanup(c.b):
            continue
        hit = [k for k, a in enumerate(c.args) if op_root(a) in locs]
        if not hit:
            continue
        s = callee_str(c)
        w = is_shared_write(c)
        if w and any(k >= 1 for k in hit):
            out[c.point] = "published by %s" % w[1]
        elif an.is_retire(c) is not None and an.is_retire(c) in hit:
            out[c.point] = "retired"
        elif an.is_free(c) is not None and an.is_free(c) in hit:
            out[c.point] = "freed"
        elif s.endswith("reclaim::Shared::is_null") or s.endswith("Shared::deref") or s.endswith("Shared::as_ref") or "PartialEq" in s or s.endswith("::fmt") or s.endswith("Shared::clone"):
            continue
        else:
            tb = facts.by_id.get(c.resolved)
            if tb is not None or s.endswith("Atomic::from") or "convert::From" in s or "convert::Into" in s:
                out[c.point] = "handed to %s" % s.rsplit("::", 2)[-2:]
    return out


def asserted_null(body, locs):
    """is_null tests of locs whose non-null edge ends in a panic"""
    pts = set()
    for blk in range(len(body.blocks)):
        cd = cond_of(body, blk)
        if cd and cd["kind"] == "is_null" and cd.get("arg") in locs:
            r = reach(body, [Point(cd["false"], 0)])
            rets = [rp for rp in return_points(body) if rp in r]
            if not rets:
                pts.add(body.term_point(blk))
    return pts


def owner_overwritten(b, start_pts, x, cons, nulls, null_edge_of):
    """path-sensitive must-consume for one owned pointer: follow the locals that hold the value produced at `x` (moves transfer it, copies
    duplicate it); report the point where the LAST holder is overwritten (or goes out of scope) before any holder was consumed, seen
    to be null, or returned.  `null_edge_of`: {local: set((block, target))} edges on which that local is known null."""
    from collections import deque
    seen = set()
    dq = deque((sp, frozenset([x])) for sp in start_pts)
    steps = 0
    while dq and steps < 200000:
        steps += 1
        pt, hold = dq.popleft()
        if (pt, hold) in seen:
            continue
        seen.add((pt, hold))
        blk, i = pt
        if b.is_cleanup(blk):
            continue
        if pt in cons or pt in nulls:
            c = b.call_at(blk) if i == b.nstmts(blk) else None
            from .analysis import is_view
            looks = c is not None and pt in cons and (is_view(c) or is_reclaim_atomic(c) == "load" or is_link_load(c))
            if not looks and (c is None or any(op_root(a) in hold for a in c.args)):
                continue                      # consumed (or asserted null) on this path; merely looking at the object is not
        if i < b.nstmts(blk):
            st = b.blocks[blk]["stmts"][i]
            nh = set(hold)
            if st["k"] == "assign" and not st["dst"]["proj"]:
                d = st["dst"]["local"]
                rv = st["rv"]
                src = None
                moved = False
                if "use" in rv:
                    pl = rv["use"].get("move") or rv["use"].get("copy")
                    if pl and not pl["proj"]:
                        src = pl["local"]
                        moved = "move" in rv["use"]
                if src in hold:
                    nh.add(d)
                    if moved:
                        nh.discard(src)
                elif d in hold:
                    nh.discard(d)
                    if not nh:
                        return pt             # the last holder is overwritten: the value is lost
                if "agg" in rv:
                    # stored into an aggregate: ownership is handed on; stop following this path (borrows -- `&p` for p.is_null(),
                    # p.deref() -- leave the ownership where it is)
                    if any(op_root(o) in hold for o in rv.get("ops", [])):
                        continue
            elif st["k"] == "storage_dead" and st["local"] in hold:
                nh.discard(st["local"])
                if not nh:
                    return pt
            dq.append((Point(blk, i + 1), frozenset(nh)))
            continue
        t = b.term(blk)
        if t["k"] == "return":
            continue
        if t["k"] == "call":
            c = b.call_at(blk)
            if c.dst_local() in hold:
                nh = set(hold) - {c.dst_local()}
                if not nh:
                    return pt
                hold = frozenset(nh)
        for sx, lab in b.term_succ(blk, False):
            if any((blk, sx) in null_edge_of.get(h, ()) for h in hold):
                continue                      # known null on this edge: nothing to dispose of
            dq.append((Point(sx, 0), hold))
    return None


def rule_o1(ctx, facts):
    for b in facts.bodies:
        if b.sid.startswith("reclaim::"):
            continue
        fl = flow(b)
        for c in b.calls:
            if b.is_cleanup(c.b) or c.dst_local() is None:
                continue
            n = is_reclaim_atomic(c)
            s = callee_str(c)
            if n == "swap":
                x = c.dst_local()
                locs = fl.flows_to(x)
                cons = consumers(b, facts, locs)
                nulls = asserted_null(b, locs)
                ret_flow = 0 in locs
                null_edges = set()
                for blk in range(len(b.blocks)):
                    cd = cond_of(b, blk)
                    if cd and cd["kind"] == "is_null" and cd.get("arg") in locs:
                        null_edges.add((blk, cd["true"]))   # known null: nothing to dispose of
                r = reach(b, after(b, c.point, label="ret"), avoid=set(cons) | nulls, avoid_edges=null_edges)
                leaks = [rp for rp in return_points(b) if rp in r] if not ret_flow else []
                f = "/".join(sorted(x[1] for x in receiver_field(b, c, 0))) or "slot"
                if not leaks and not ret_flow:
                    # the variable-level view above cannot see a holder that is re-used as a cursor: follow the value itself
                    neo = {}
                    for blk in range(len(b.blocks)):
                        cd = cond_of(b, blk)
                        if cd and cd["kind"] == "is_null" and cd.get("arg") is not None:
                            neo.setdefault(cd["arg"], set()).add((blk, cd["true"]))
                    lost = owner_overwritten(b, after(b, c.point, label="ret"), x, cons, nulls, neo)
                    if lost is not None:
                        ctx.inst("O1", b, "swap result (%s)" % f, b.span_at(lost), False,
                                 "the previous %s returned by the swap at %s is still unconsumed when the last variable holding it is overwritten / goes "
                                 "out of scope at %s: the object it points to (and everything only reachable from it) is never freed" % (f, c.span, b.span_at(lost)))
                        continue
                ctx.inst("O1", b, "swap result (%s)" % f, c.span, not leaks,
                         "consumed on every path: %s" % ", ".join(sorted(set(cons.values()) | ({"asserted null"} if nulls else set())))[:160] if not leaks else
                         "the previous %s returned by the swap at %s is dropped on a path to the return: the object it points to is leaked" % (f, c.span))
            elif is_fresh_alloc(b, c):
                x = c.dst_local()
                locs = fl.flows_to(x)
                cons = consumers(b, facts, locs)
                ret_flow = 0 in locs
                ok = bool(cons) or ret_flow
                ctx.inst("O1", b, "boxed %s" % (c.callee["substs"][-1] if c.callee["substs"] else "T")[:40], c.span, ok,
                         "has a consumer: %s" % ", ".join(sorted(set(cons.values())))[:120] if ok else "a freshly boxed object is never published, handed on or freed")
    # CAS-failure node of put
    put = facts.body("map::HashMap::put")
    fl = flow(put)
    an = anchors(facts)
    for c in put.calls:
        if callee_str(c).endswith("raw::Table::cas_bin") and not put.is_cleanup(c.b):
            dl = c.dst_local()
            err_edges = []
            for blk in range(len(put.blocks)):
                t = put.term(blk)
                if t["k"] != "switch":
                    continue
                l = op_local(t["on"])
                for pt, kind, data in put.defs.get(l, []) if l is not None else []:
                    if kind == "assign" and "discr" in data["rv"] and not data["rv"]["discr"]["proj"] and data["rv"]["discr"]["local"] in fl.copies_of(dl):
                        for v, tb in t["targets"]:
                            if v == "1":
                                err_edges.append(tb)
                        if not any(v == "1" for v, _ in t["targets"]):
                            err_edges.append(t["otherwise"])
            frees = set()
            for f in put.calls:
                k = an.is_free(f)
                if k is not None and not put.is_cleanup(f.b):
                    x = op_root(f.args[k])
                    fields = set()
                    for kind, data, pt in fl.sources(x) if x is not None else []:
                        if kind == "field":
                            fields |= set(place_fields(data))
                    from .anchors import cas_failure_fields
                    if fields & cas_failure_fields(facts)[0]:
                        frees.add(f.point)
            ok = bool(err_edges) and bool(frees)
            leak = None
            for tb in err_edges:
                r = reach(put, [Point(tb, 0)], avoid=frees)
                if any(rp in r for rp in return_points(put)) or any(x.point in r for x in put.calls if x.b != c.b and callee_str(x).endswith("raw::Table::cas_bin")) \
                        or c.point in r:
                    leak = tb
            ctx.inst("O1", put, "node of a failed empty-bin CAS", c.span, ok and leak is None,
                     "reclaimed (into_box of the error's `new`) on every path from the failure edge" if ok and leak is None else
                     "after a failed empty-bin CAS the private node is not reclaimed on every path (leaks the node and its key copy)")


# ------------------------------------------------------------------------------------------------ O2

def rule_o2(ctx, facts):
    an = anchors(facts)
    sharers = [b for b in facts.bodies if any(callee_str(c).endswith("clone") and c.callee.get("self_ty", {}).get("base") == "reclaim::Atomic" for c in b.calls)]
    unt = facts.body("map::HashMap::untreeify")
    replacers = [b for b in facts.bodies if any(c.resolved == unt.id for c in b.calls)]
    dtn = facts.body("node::TreeBin::drop_tree_nodes")
    for b in {x.id: x for x in sharers + replacers}.values():
        fl = flow(b)
        for c in b.calls:
            if b.is_cleanup(c.b):
                continue
            k = an.is_retire(c)
            if k is not None:
                x = op_root(c.args[k])
                t = b.ty(x)
                last = (t.get("args") or [""])[-1]
                if b in sharers and not last.startswith("node::BinEntry") and not last.startswith("raw::Table") and "Thread" not in last:
                    roots = [r for r in fl.call_roots(x) if r is not None]
                    if any(is_reclaim_atomic(r) == "load" for r in roots):
                        ctx.inst("O2", b, "retire of a shared value", c.span, False,
                                 "a value pointer that the new nodes share is retired here: the value is freed while still referenced by the new bin")
                        continue
                # plain retire_shared of a pure bin pointer inside a TreeBin.lock region of a replacer
                if callee_str(c).endswith("retire_shared") and last.startswith("node::BinEntry") and b in replacers:
                    roots = [r for r in fl.call_roots(x) if r is not None]
                    only_bin = bool(roots) and all(is_link_load(r) == "bin" for r in roots)
                    in_tree = [r for r in regions(b) if r.may_hold_at(c.point) and ("node::TreeBin", "lock") in r.receiver_fields()]
                    if only_bin and in_tree:
                        ctx.inst("O2", b, "superseded tree bin released", c.span, False,
                                 "a tree bin whose values live on in its replacement is released with retire_shared: its reclaimer runs TreeBin::drop, which drops the values (double drop later)")
                        continue
                if callee_str(c).endswith("defer_drop_without_values"):
                    ctx.inst("O2", b, "superseded tree bin released", c.span, True, "defer_drop_without_values: nodes freed, values kept")
            if c.resolved == dtn.id:
                flag = c.args[1].get("int")
                ok = flag == 0 or b.id == dtn.id
                ctx.inst("O2", b, "drop_tree_nodes(_, %s)" % ("false" if flag == 0 else "true" if flag == 1 else "?"), c.span, ok,
                         "temporary tree nodes dropped without their (shared) values" if ok else "drop_tree_nodes drops values that are shared with live nodes")
    # constants at TreeBin::drop and the deferred closure
    df = facts.body("node::TreeBin::drop_fields")
    for b in facts.bodies:
        for c in b.calls:
            if c.resolved == df.id and not b.is_cleanup(c.b):
                flag = c.args[1].get("int")
                is_drop = bool(b.impl and b.impl.get("trait") == "std::ops::Drop")
                want = 1 if is_drop else 0
                ctx.inst("O2", b, "drop_fields(%s)" % flag, c.span, flag == want,
                         "%s drops the nodes %s their values" % ("TreeBin::drop" if is_drop else "the deferred reclaimer", "with" if want else "without") if flag == want else
                         "%s calls drop_fields(%s): values are %s" % (strip_generics(b.id), flag, "leaked" if is_drop else "dropped although still shared"))


# ------------------------------------------------------------------------------------------------ O3 (and L5)

class PutSpec(Spec):
    def __init__(self, body, facts, value_locals, publish_calls, publish_edges, return_calls, loop_heads):
        self.body = body
        self.vl = value_locals
        self.publish_calls = publish_calls
        self.publish_edges = publish_edges
        self.return_calls = return_calls
        self.loop_heads = loop_heads
        self.errors = {}

    def initial(self):
        return "owned"

    def err(self, pt, why):
        self.errors[(pt, why)] = True

    def _pub(self, ts, where, desc):
        if ts == "owned":
            return ["published"]
        self.err(where, "the value is %s (%s) although it was already %s" % ("published", desc, ts))
        return [ts]

    def on_call(self, pt, c, ts, env):
        if pt in self.publish_calls:
            return self._pub(ts, pt, self.publish_calls[pt])
        if pt in self.return_calls:
            if ts == "owned":
                return ["returned"]
            self.err(pt, "the boxed value is unboxed for return although it was already %s" % ts)
        return [ts]

    def on_edge(self, b, tb, label, ts, env):
        out = [ts]
        if (b, tb) in self.publish_edges:
            out = self._pub(ts, self.body.term_point(b), self.publish_edges[(b, tb)])
        if tb in self.loop_heads and out[0] != "owned":
            pass
        return out

    def on_return(self, pt, ts, env):
        v = env.get(0)
        var = v[2] if v and v[0] == "variant" else None
        if var == "Exists" and ts != "returned":
            self.err(pt, "PutResult::Exists is returned but the refused value was %s (must be handed back intact)" % ts)
        elif var in ("Inserted", "Replaced") and ts != "published":
            self.err(pt, "PutResult::%s is returned but the value is %s (must have been published exactly once)" % (var, ts))
        elif var is None and ts == "owned":
            self.err(pt, "a path returns with the boxed value neither published nor handed back (leak)")


def rule_o3_put(ctx, facts, as_rule="O3"):
    put = facts.body("map::HashMap::put")
    fl = flow(put)
    an = anchors(facts)
    boxed = [c for c in put.calls if callee_str(c).endswith("reclaim::Shared::boxed") and c.callee["substs"] and c.callee["substs"][-1] == "V" and not put.is_cleanup(c.b)]
    if len(boxed) != 1:
        ctx.fail_closed("%s: expected exactly one Shared::boxed::<V> in put, found %d" % (as_rule, len(boxed)))
        return
    V = fl.copies_of(boxed[0].dst_local())
    publish_calls, publish_edges, return_calls = {}, {}, {}
    node_of_value = set()
    for c in put.calls:
        if put.is_cleanup(c.b):
            continue
        s = callee_str(c)
        hit = [k for k, a in enumerate(c.args) if op_root(a) in V]
        if not hit:
            continue
        if is_reclaim_atomic(c) == "swap" and 1 in hit:
            publish_calls[c.point] = "swapped into an existing node"
        elif an.is_free(c) is not None and an.is_free(c) in hit:
            return_calls[c.point] = "into_box"
        elif s.endswith("node::Node::new") or s.endswith("node::Node::with_next"):
            # the node carrying the value: published when stored / CASed
            node_of_value |= fl.flows_to(c.dst_local())
        elif s.endswith("TreeBin::find_or_put_tree_val"):
            dl = c.dst_local()
            for blk in range(len(put.blocks)):
                cd = cond_of(put, blk)
                # "nothing found, a new node was linked": a null pointer, or None when the routine returns an Option
                if cd and cd["kind"] in ("is_null", "is_none") and cd.get("arg") in fl.copies_of(dl):
                    publish_edges[(blk, cd["true"])] = "inserted into the tree bin"
    from .rules_c05 import put_events
    pc, pe = put_events(facts, put)
    for pt, d in pc.items():
        if d == "fresh node appended":
            publish_calls[pt] = "node appended to the list"
    for e, d in pe.items():
        if d == "won empty-bin CAS":
            publish_edges[e] = "node CASed into the empty bin"
    loop_heads = {h for _, h in back_edges(put)}
    spec = PutSpec(put, facts, V, publish_calls, publish_edges, return_calls, loop_heads)
    esp = Esp(put, spec, extra_flags={0})
    states = esp.run()
    # on loop back edges the value must still be owned
    outer = None
    for t, h in back_edges(put):
        if any(r.call.b in __import__("vf.analysis", fromlist=["loop_blocks"]).loop_blocks(put, (t, h)) for r in regions(put)):
            outer = h
    if outer is not None:
        for (ts, kf), env in states.get(Point(outer, 0), {}).items():
            if ts != "owned":
                spec.err(Point(outer, 0), "the retry loop is re-entered with the value already %s" % ts)
    n_sites = len(publish_calls) + len(publish_edges) + len(return_calls)
    if n_sites < 7 and not spec.errors:
        ctx.fail_closed("%s: expected 4 publication and 3 refusal sites in put, found %d" % (as_rule, n_sites))
        return
    if spec.errors:
        for (pt, why) in list(spec.errors)[:3]:
            ctx.inst(as_rule, put, "value typestate", put.span_at(pt), False, why)
    else:
        ctx.inst(as_rule, put, "value typestate", put.span, True,
                 "%d publication and %d refusal site(s); Exists => handed back once, Inserted/Replaced => published once; owned on every retry"
                 % (len(publish_calls) + len(publish_edges), len(return_calls)))


# ------------------------------------------------------------------------------------------------ O4

class ValueRetireSpec(Spec):
    """typestate of the value of the entry being removed / replaced: none -> pending -> done"""

    def __init__(self, body, unlink_calls, rtn_calls, rtn_edges, value_retires):
        self.body = body
        self.unlink_calls = unlink_calls      # {point: desc}: list-node unlink / value slot overwrite -> pending
        self.rtn_calls = rtn_calls            # {point: drop_value const}: remove_tree_node
        self.rtn_edges = rtn_edges            # {(block, target): (call point, result bool)}
        self.value_retires = value_retires    # points retiring a loaded value
        self.errors = {}

    def initial(self):
        return "none"

    def err(self, pt, why):
        self.errors[(pt, why)] = True

    def on_call(self, pt, c, ts, env):
        if pt in self.unlink_calls:
            if ts == "none":
                return ["pending"]
            return [ts]
        if pt in self.rtn_calls:
            return ["rtn%d" % self.rtn_calls[pt]]
        if pt in self.value_retires:
            if ts == "pending":
                return ["done"]
            if ts == "done":
                self.err(pt, "the removed entry's value is retired a second time")
                return ["done"]
            if ts == "none":
                self.err(pt, "a value is retired although nothing was unlinked or replaced on this path")
                return ["none"]
            if ts.startswith("rtn"):
                return ["done"]
        return [ts]

    def on_edge(self, b, tb, label, ts, env):
        if (b, tb) in self.rtn_edges and ts.startswith("rtn"):
            untreeify = self.rtn_edges[(b, tb)]
            drop_value = ts == "rtn1"
            if drop_value and not untreeify:
                return ["done"]       # callee retired node and value
            return ["pending"]        # caller must retire the value
        return [ts]

    def on_return(self, pt, ts, env):
        if ts == "pending" or ts.startswith("rtn"):
            self.err(pt, "a path returns after removing/replacing an entry without retiring its value (leak)")


def rule_o4(ctx, facts, rule="O4"):
    an = anchors(facts)
    from .rules_c05 import find_removal_bodies
    rbodies = [b for b, _, _ in find_removal_bodies(facts)]
    if len(rbodies) < 2:
        ctx.fail_closed("O4: expected at least two bodies that unlink entries, found %d" % len(rbodies))
    for b in rbodies:
        fl = flow(b)
        unlink, rtn_calls, rtn_edges, vret = {}, {}, {}, set()
        for c in b.calls:
            if b.is_cleanup(c.b):
                continue
            s = callee_str(c)
            k = an.is_retire(c)
            if s.endswith("TreeBin::remove_tree_node"):
                rtn_calls[c.point] = c.args[2].get("int", -1)
                dl = c.dst_local()
                for blk in range(len(b.blocks)):
                    cd = cond_of(b, blk)
                    if cd and ((cd["kind"] == "bool" and cd["local"] in fl.copies_of(dl)) or (cd["kind"] == "call" and cd["call"].b == c.b)):
                        rtn_edges[(blk, cd["true"])] = True
                        rtn_edges[(blk, cd["false"])] = False
            elif k is not None:
                x = op_root(c.args[k])
                last = (b.ty(x).get("args") or [""])[-1]
                if last.startswith("node::BinEntry"):
                    held = [r for r in regions(b) if r.may_hold_at(c.point) and ("node::Node", "lock") in r.receiver_fields()]
                    if held:
                        unlink[c.point] = "list node retired"
                elif not last.startswith("raw::Table") and "Thread" not in last:
                    roots = [r for r in fl.call_roots(x) if r is not None]
                    if any(is_reclaim_atomic(r) == "load" for r in roots) and not any(is_reclaim_atomic(r) == "swap" for r in roots):
                        vret.add(c.point)
            elif is_reclaim_atomic(c) == "store" and ("node::Node", "value") in receiver_field(b, c, 0):
                unlink[c.point] = "value slot overwritten"
        spec = ValueRetireSpec(b, unlink, rtn_calls, rtn_edges, vret)
        Esp(b, spec).run()
        n = len(unlink) + len(rtn_calls)
        if (n < 2 or not vret) and not spec.errors:
            ctx.fail_closed("O4: expected unlink/removal sites and value retires in %s, found %d/%d" % (strip_generics(b.id), n, len(vret)))
            continue
        if spec.errors:
            for (pt, why) in list(spec.errors)[:3]:
                ctx.inst(rule, b, "removed value retired once", b.span_at(pt), False, why)
        else:
            ctx.inst(rule, b, "removed value retired once", b.span, True,
                     "%d unlink/overwrite site(s), %d remove_tree_node call(s) (drop_value=%s), %d value retire(s): exactly one retire on every path"
                     % (len(unlink), len(rtn_calls), sorted(set(rtn_calls.values())), len(vret)))
    # remove_tree_node itself: retires the value iff drop_value, only on the non-untreeify path
    rt = facts.body("node::TreeBin::remove_tree_node")
    fl = flow(rt)
    vr = []
    for c in rt.calls:
        k = an.is_retire(c)
        if k is not None and not rt.is_cleanup(c.b):
            last = (rt.ty(op_root(c.args[k])).get("args") or [""])[-1]
            if not last.startswith("node::BinEntry"):
                vr.append(c)
    ok = False
    for c in vr:
        for blk in range(len(rt.blocks)):
            cd = cond_of(rt, blk)
            if cd and cd["kind"] == "bool" and fl.derives_from_arg(cd["local"], 3) and dominated_by_edge(rt, c.point, [(blk, cd["true"])]):
                ok = True
    ctx.inst(rule, rt, "callee retires the value iff drop_value", rt.span, ok and len(vr) == 1,
             "value retire is dominated by the true edge of drop_value" if ok and len(vr) == 1 else "remove_tree_node's value retire is not controlled by drop_value")


# ------------------------------------------------------------------------------------------------ O5

def rule_o5(ctx, facts):
    cg = callgraph(facts)
    an = anchors(facts)
    hd = [b for b in facts.bodies if b.impl and b.impl.get("trait") == "std::ops::Drop" and b.impl["self_head"] == "map::HashMap"]
    db = facts.body("raw::Table::drop_bins")
    if not hd:
        ctx.inst("O5", "map::HashMap", "Drop impl", "src/map.rs", False, "HashMap has no Drop impl")
        return
    seen = cg.reachable(hd[0].id)
    ctx.inst("O5", hd[0], "drop reaches drop_bins", hd[0].span, db.id in seen, "HashMap::drop -> Table::drop_bins" if db.id in seen else "HashMap::drop never frees the bins")
    # the table itself is freed
    tfree = [c for c in hd[0].calls if an.is_free(c) is not None and (hd[0].ty(op_root(c.args[an.is_free(c)])).get("args") or [""])[-1].startswith("raw::Table")]
    ctx.inst("O5", hd[0], "table freed", hd[0].span, bool(tfree), "into_box of the swapped-out table" if tfree else "the table is never freed")
    fl = flow(db)
    frees = [c for c in db.calls if an.is_free(c) is not None and not db.is_cleanup(c.b)]
    val_free = [c for c in frees if db.ty(op_root(c.args[an.is_free(c)]))["s"].startswith("reclaim::Atomic<V>")]
    node_free = [c for c in frees if "BinEntry" in db.ty(op_root(c.args[an.is_free(c)]))["s"]]
    loops = back_edges(db)
    in_loop = lambda c: any(c.b in __import__("vf.analysis", fromlist=["loop_blocks"]).loop_blocks(db, be) for be in loops)
    ctx.inst("O5", db, "Node arm frees value and chain", db.span, bool(val_free) and len(node_free) >= 2 and any(in_loop(c) for c in val_free),
             "%d value free(s) inside the chain loop, %d node free(s)" % (len(val_free), len(node_free)) if val_free and len(node_free) >= 2 else
             "drop_bins does not free every node and value of a list bin")
    tree_drop = any(callee_str(c).endswith("mem::drop") and c.args and "node::TreeBin" in db.ty(op_root(c.args[0]))["s"] for c in db.calls) or \
        any(db.term(bi)["k"] == "drop" and "node::TreeBin" in db.term(bi)["ty"]["s"] and not db.is_cleanup(bi) for bi in range(len(db.blocks)))
    ctx.inst("O5", db, "Tree arm drops the TreeBin", db.span, tree_drop, "TreeBin dropped (Drop frees nodes with values)" if tree_drop else "tree bins are not dropped at teardown")
    td = [b for b in facts.bodies if b.impl and b.impl.get("trait") == "std::ops::Drop" and b.impl["self_head"] == "raw::Table"]
    ok = False
    if td:
        for c in td[0].calls:
            if an.is_free(c) is not None:
                x = op_root(c.args[an.is_free(c)])
                if any(is_reclaim_atomic(r) == "swap" and ("raw::Table", "moved") in receiver_field(td[0], r, 0) for r in flow(td[0]).call_roots(x) if r is not None):
                    ok = True
    ctx.inst("O5", td[0] if td else "raw::Table", "forwarding node freed", td[0].span if td else "src/raw/mod.rs", ok,
             "Table::drop frees the shared Moved node" if ok else "the shared forwarding node is leaked")
    dtn = facts.body("node::TreeBin::drop_tree_nodes")
    vf = [c for c in dtn.calls if an.is_free(c) is not None and dtn.ty(op_root(c.args[an.is_free(c)]))["s"].startswith("reclaim::Atomic<V>")]
    okv = False
    for c in vf:
        for blk in range(len(dtn.blocks)):
            cd = cond_of(dtn, blk)
            if cd and cd["kind"] == "bool" and flow(dtn).derives_from_arg(cd["local"], 2) and dominated_by_edge(dtn, c.point, [(blk, cd["true"])]):
                okv = True
    ctx.inst("O5", dtn, "tree values freed iff drop_values", dtn.span, okv and len(vf) == 1, "value free is on the true edge of drop_values" if okv else
             "drop_tree_nodes does not free values under control of its flag")


# ------------------------------------------------------------------------------------------------ O6

class ReplacedBinSpec(Spec):
    """A tree bin B that is overwritten in its table slot must, before the next lock acquisition / return, be either re-published (stored
    into a table) or retired -- exactly one of the two.  typestate = (phase, holders of B, reused, retired)"""

    def __init__(self, body, facts, lock_points, bexact_of, origin_table_of):
        self.body = body
        self.an = anchors(facts)
        self.lock_points = lock_points        # {call point: B-exact locals}
        self.all_locks = set()
        self.errors = {}
        self.fl = flow(body)
        self.origin = origin_table_of         # {lock point: set(locals of origin table closure)}

    def initial(self):
        return ("idle", None, frozenset(), False, False)

    def err(self, pt, why):
        self.errors[(pt, why)] = True

    def _check_end(self, pt, ts, what):
        phase, lk, holders, reused, retired = ts
        if phase == "unlinked":
            if not reused and not retired:
                self.err(pt, "a tree bin that was replaced in its table slot is neither re-published nor retired before %s: the bin, its nodes and "
                             "their key copies are leaked" % what)
            elif reused and retired:
                self.err(pt, "a tree bin is retired although it was re-published into the new table: it is freed while reachable")

    def on_stmt(self, pt, st, ts, env):
        phase, lk, holders, reused, retired = ts
        if phase != "idle" and st["k"] == "storage_dead" and st["local"] in holders:
            return [(phase, lk, holders - {st["local"]}, reused, retired)]
        if phase == "idle" or st["k"] != "assign" or st["dst"]["proj"]:
            return [ts]
        dst = st["dst"]["local"]
        src = op_local(st["rv"]["use"]) if "use" in st["rv"] else None
        B = self.lock_points.get(lk, set())
        if src is not None and (src in B or src in holders):
            if dst not in holders and dst not in B:
                holders = holders | {dst}
            if "move" in st["rv"]["use"] and src in holders:
                holders = holders - {src}
        elif dst in holders:
            holders = holders - {dst}
        return [(phase, lk, holders, reused, retired)]

    def on_term(self, pt, term, ts, env):
        phase, lk, holders, reused, retired = ts
        if term["k"] == "drop" and "MutexGuard" in term["ty"]["s"] and phase == "locked":
            return [("idle", None, frozenset(), False, False)]   # critical section left without replacing the bin
        return [ts]

    def on_call(self, pt, c, ts, env):
        phase, lk, holders, reused, retired = ts
        if pt in self.all_locks:
            self._check_end(pt, ts, "the next bin is locked")
            if pt in self.lock_points:
                return [("locked", pt, frozenset(), False, False)]
            return [("idle", None, frozenset(), False, False)]
        if phase == "idle":
            return [ts]
        B = self.lock_points.get(lk, set()) | holders
        s = callee_str(c)
        if s.endswith("mem::drop") and c.args and op_root(c.args[0]) is not None and "MutexGuard" in self.body.ty(op_root(c.args[0]))["s"] and phase == "locked":
            return [("idle", None, frozenset(), False, False)]
        moved = {op_local(a) for a in c.args if "move" in a and op_local(a) in holders}
        if moved and not (s.endswith("store_bin") or s.endswith("cas_bin") or self.an.is_retire(c) is not None):
            holders = holders - moved
        if s.endswith("raw::Table::store_bin") or s.endswith("raw::Table::cas_bin"):
            vl = op_root(c.args[2 if s.endswith("store_bin") else 3])
            tl = op_root(c.args[0])
            on_origin = tl is not None and bool(self.fl.closure_locals(tl) & self.origin.get(lk, set()))
            if vl in B:
                if not on_origin:
                    reused = True
            elif on_origin:
                phase = "unlinked"
            return [(phase, lk, holders, reused, retired)]
        k = self.an.is_retire(c)
        if k is not None and op_root(c.args[k]) in B:
            if retired:
                self.err(pt, "the replaced tree bin is retired twice")
            return [(phase, lk, holders, reused, True)]
        return [ts]

    def on_return(self, pt, ts, env):
        self._check_end(pt, ts, "the function returns")


def rule_o6(ctx, facts):
    from .protocol import validated_regions
    n = 0
    for b in facts.bodies:
        vs = [v for v in validated_regions(b) if ("node::TreeBin", "lock") in v.region.receiver_fields()]
        if not vs:
            continue
        fl = flow(b)
        lock_points, origin = {}, {}
        for v in vs:
            exact = set()
            for c0 in v.bin_calls:
                b0 = c0.dst_local()
                exact.add(b0)
                # single-definition locals copied from it, transitively: the same value under another name (a temporary, or the
                # variable a helper's result is destructured into)
                grew = True
                while grew:
                    grew = False
                    for l in range(len(b.locals)):
                        if l in exact:
                            continue
                        ds = [d for d in b.defs.get(l, []) if d[1] in ("assign", "call", "arg")]
                        if len(ds) == 1 and ds[0][1] == "assign" and "use" in ds[0][2]["rv"] and op_local(ds[0][2]["rv"]["use"]) in exact:
                            exact.add(l)
                            grew = True
                tl = op_root(c0.args[0])
                if tl is not None:
                    origin.setdefault(v.region.call.point, set()).update(fl.closure_locals(tl))
            lock_points[v.region.call.point] = exact
        spec = ReplacedBinSpec(b, facts, lock_points, None, origin)
        spec.all_locks = {r.call.point for r in regions(b)}
        # named integer counters compared with constants inside the tree-bin critical sections (the split counters of transfer)
        key_ints = set()
        for v in vs:
            for blk in {p[0] for p in v.region.points}:
                for st in b.blocks[blk]["stmts"]:
                    if st["k"] == "assign" and st["rv"].get("bin") in ("Lt", "Le", "Gt", "Ge", "Eq", "Ne"):
                        for x, y in ((st["rv"]["a"], st["rv"]["b"]), (st["rv"]["b"], st["rv"]["a"])):
                            if op_local(x) is not None and "int" in y:
                                l = op_local(x)
                                for kind, data, pt in fl.sources(l):
                                    if kind == "copy" and b.local_name(data):
                                        key_ints.add(data)
                                if b.local_name(l):
                                    key_ints.add(l)
        spec.key_ints = sorted(key_ints)
        Esp(b, spec).run()
        n += len(vs)
        if spec.errors:
            for (pt, why) in list(spec.errors)[:3]:
                ctx.inst("O6", b, "replaced tree bin: retire xor re-publish", b.span_at(pt), False, why)
        else:
            ctx.inst("O6", b, "replaced tree bin: retire xor re-publish", b.span, True,
                     "%d tree-bin lock region(s): whenever the bin is overwritten in its slot it is retired or re-published, never both, never neither" % len(vs))


def rule_o7(ctx, facts):
    """private node lists: a list of freshly boxed tree nodes whose head is kept in a local (transfer's `low` / `high`, treeify_bin's
    `hd`) is handed to exactly one owner -- TreeBin::new (takes the nodes) or TreeBin::drop_tree_nodes (frees them) -- on every path from
    where the head was set to the return / to the re-initialisation of the head for the next bin.  Nobody else knows these nodes, so a
    path without a consumer leaks them together with the key clones they hold."""
    take = [b for b in facts.bodies if b.sid.endswith("TreeBin::new") or b.sid.endswith("TreeBin::drop_tree_nodes")]
    if len(take) < 2:
        ctx.fail_closed("O7: TreeBin::new / TreeBin::drop_tree_nodes not found")
        return
    take_ids = {b.id for b in take}

    def named_source(b, l):
        seen = set()
        # (the parameter of an inlined helper has a name of its own but is only another name for what the caller passed)
        def is_inlined_param(x):
            ds = [d for d in b.defs.get(x, []) if d[1] in ("assign", "call", "arg")]
            return len(ds) == 1 and ds[0][1] == "assign" and ds[0][2].get("inlined_arg")
        while l is not None and l not in seen and (not b.local_name(l) or is_inlined_param(l)):
            seen.add(l)
            ds = [d for d in b.defs.get(l, []) if d[1] in ("assign", "call", "arg")]
            if len(ds) != 1 or ds[0][1] != "assign" or "use" not in ds[0][2]["rv"]:
                return None
            l = op_local(ds[0][2]["rv"]["use"])
        return l

    for b in facts.bodies:
        if b.id in take_ids:
            continue
        fl = flow(b)
        cons = {}
        for c in b.calls:
            if c.resolved in take_ids and c.args and not b.is_cleanup(c.b):
                h = named_source(b, op_root(c.args[0]))
                if h is not None:
                    cons.setdefault(h, []).append(c)
        for h, cs in sorted(cons.items()):
            # definitions of the head: from a fresh allocation (Shared::boxed) or a null re-initialisation
            fresh, nulls = [], []
            # definitions of the head, including stores through a `&mut` reference to it (`*head = new_node` in a local helper that
            # received `&mut low`)
            hdefs = list(b.defs.get(h, []))
            for bi2, blk2 in enumerate(b.blocks):
                for si2, st2 in enumerate(blk2["stmts"]):
                    if st2["k"] == "assign" and st2["dst"]["proj"] == ["deref"] and "use" in st2["rv"]:
                        r0, seen0 = st2["dst"]["local"], set()
                        while r0 is not None and r0 not in seen0:
                            seen0.add(r0)
                            srcs0 = [x for x in fl.sources(r0) if x[0] != "partial"]
                            if len(srcs0) != 1:
                                break
                            k0, d0, _ = srcs0[0]
                            if k0 == "ref" and not d0["proj"]:
                                if d0["local"] == h:
                                    hdefs.append((Point(bi2, si2), "assign", st2))
                                break
                            r0 = d0 if k0 == "copy" else (d0["local"] if k0 == "ref" and d0["proj"] == ["deref"] else None)   # copy / reborrow
            for pt, kind, data in hdefs:
                src = None
                if kind == "assign" and "use" in data["rv"]:
                    src = op_root(data["rv"]["use"])
                roots = fl.roots_at(src, pt) if src is not None else ({("call", pt[0])} if kind == "call" else set())
                rc = [b.call_at(r[1]) for r in roots if r[0] == "call"]
                if rc and all(callee_str(x).endswith("Shared::null") for x in rc if x is not None):
                    nulls.append(pt)
                elif any(x is not None and is_fresh_alloc(b, x) for x in rc):
                    fresh.append(pt)
            if not fresh:
                continue
            cpts = {c.point for c in cs}
            ends = set(return_points(b)) | set(nulls)
            leak = None
            for d in fresh:
                r = reach(b, after(b, d), avoid=cpts)
                hit = [e for e in ends if e in r]
                if hit:
                    leak = (d, hit[0])
                    break
            twice = None
            for c in cs:
                r = reach(b, after(b, c.point, label="ret"), avoid=set(fresh) | set(nulls))
                other = [x for x in cs if x.point in r]
                if other:
                    twice = (c, other[0])
                    break
            ok = leak is None and twice is None
            ctx.inst("O7", b, "private list `%s`" % b.local_name(h), cs[0].span, ok,
                     "handed to exactly one of TreeBin::new / drop_tree_nodes on every path (%d site(s))" % len(cs) if ok else
                     ("a path from `%s = <fresh node>` at %s reaches %s without the list being given to TreeBin::new or freed by drop_tree_nodes: "
                      "its nodes and the key clones in them leak" % (b.local_name(h), b.span_at(leak[0]),
                                                                      "the return" if leak[1] in set(return_points(b)) else "the re-initialisation of the head for the next bin")
                      if leak else
                      "the list is consumed at %s and again at %s on one path" % (twice[0].span, twice[1].span)))


def rule_o8(ctx, facts):
    """retire loops: a loop that walks a superseded list with a cursor and retires the node under the cursor may only be left when the
    cursor is exhausted (null, or equal to the sentinel it is compared with) or after the current node has been retired -- leaving on
    any other test (e.g. `next.is_null()` before the retire) strands the node the cursor stands on: it is unreachable and never freed"""
    from .analysis import loop_blocks
    an = anchors(facts)
    n = 0
    for b in facts.bodies:
        fl = flow(b)
        loops = []
        for be in back_edges(b, unwind=False):
            if not b.is_cleanup(be[1]):
                loops.append((be, loop_blocks(b, be, unwind=False)))
        for c in b.calls:
            if b.is_cleanup(c.b):
                continue
            k = an.is_retire(c)
            if k is None or k >= len(c.args):
                continue
            inner = [(be, L) for be, L in loops if c.b in L]
            if not inner:
                continue
            (tail, head), loop = min(inner, key=lambda x: len(x[1]))      # the innermost loop around the retire
            if True:
                cur = op_root(c.args[k])
                if cur is None:
                    continue
                # the locals the retired pointer was copied from (backwards only: `let mut p = bin` must not make `bin` a cursor)
                cset = {cur}
                stack = [cur]
                while stack:
                    x0 = stack.pop()
                    for kind0, data0, pt0 in fl.sources(x0):
                        if kind0 == "copy" and data0 not in cset:
                            cset.add(data0)
                            stack.append(data0)
                # the cursor is advanced inside this loop by following a link of the node it stood on
                advanced = False
                for l in cset:
                    for pt, kind, data in b.defs.get(l, []):
                        if pt[0] not in loop or kind not in ("assign", "call"):
                            continue
                        for x in fl.call_roots(l):
                            if x is not None and x.b in loop and is_link_load(x) == "load" and x.args and op_root(x.args[0]) is not None \
                                    and ("node::Node", "next") in receiver_field(b, x, 0) \
                                    and (cset & fl.closure_locals(op_root(x.args[0]))):
                                advanced = True
                if not advanced:
                    continue
                # the cursor variable proper: the member of the set that is carried around the loop (defined inside and outside it);
                # `next`, which only ever holds the successor, is not it
                carried = {l for l in cset if any(d[0][0] in loop for d in b.defs.get(l, []) if d[1] != "arg")
                           and any(d[0][0] not in loop or d[1] == "arg" for d in b.defs.get(l, []))}
                n += 1
                outside = [x for x in range(len(b.blocks)) if x not in loop]
                pre = reach(b, [Point(head, 0)], avoid={c.point}, avoid_blocks=outside)
                bad = None
                for u in sorted(loop):
                    if b.term_point(u) not in pre:
                        continue
                    for v, lab in b.term_succ(u, False):
                        if v in loop:
                            continue
                        cd = cond_of(b, u)
                        ok_exit = False
                        if cd and cd["kind"] == "is_null" and cd.get("arg") in carried and cd["true"] == v:
                            ok_exit = True
                        if cd and cd["kind"] == "ptr_eq" and (cd.get("a") in carried or cd.get("b") in carried):
                            ok_exit = True
                        if b.term(v)["k"] == "unreachable" or (b.call_at(v) is not None and b.call_at(v).target is None):
                            ok_exit = True      # panics / unreachable!()
                        if not ok_exit:
                            bad = (u, v)
                # ... and no iteration goes round without retiring the node the cursor stood on
                skipped = not bad and b.term_point(tail) in pre and any(v == head for v, _ in b.term_succ(tail, False))
                if skipped:
                    ctx.inst("O8", b, "retire loop over `%s`" % (b.local_name(cur) or "_%d" % cur), c.span, False,
                             "an iteration of the loop that retires the nodes of a superseded list can advance the cursor without retiring the node "
                             "it stood on (the retirement at %s is conditional): unless that node is retired afterwards on every path, it is "
                             "unreachable and never freed" % c.span)
                elif bad:
                    ctx.inst("O8", b, "retire loop over `%s`" % (b.local_name(cur) or "_%d" % cur), b.term(bad[0])["span"], False,
                             "the loop that retires the nodes of a superseded list can be left at %s while the cursor still stands on a node that has "
                             "not been retired (the exit is not a test of the cursor itself): that node is unreachable and never freed" % b.term(bad[0])["span"])
                else:
                    ctx.inst("O8", b, "retire loop over `%s`" % (b.local_name(cur) or "_%d" % cur), c.span, True,
                             "left only when the cursor is exhausted, or after the current node was retired")
    if n < 2:
        ctx.fail_closed("O8: expected the retire loops of transfer (list arm) and treeify_bin, found %d" % n)


def rule_o10(ctx, facts, rule="O10"):
    """a tree bin that is retired whole (`retire_shared`: its Drop frees the nodes AND their values) must not also have the values of its
    nodes retired one by one -- and a value retired one by one must belong to a container that is released without its values.  A value
    handed to the collector twice is freed twice."""
    an = anchors(facts)
    n = n_whole = 0
    for b in facts.bodies:
        fl = flow(b)
        # tree containers retired whole: retire(x) with x a bin pointer that is also viewed as a TreeBin
        whole = []
        for c in b.calls:
            k = an.is_retire(c)
            if k is None or b.is_cleanup(c.b) or k >= len(c.args) or callee_str(c).endswith("defer_drop_without_values"):
                continue
            x = op_root(c.args[k])
            if x is None or not str((b.ty(x).get("args") or [""])[-1]).startswith("node::BinEntry"):
                continue
            xs = fl.closure_locals(x)
            views = [v for v in b.calls if callee_str(v).endswith("BinEntry::as_tree_bin") and v.args and op_root(v.args[0]) is not None
                     and fl.closure_locals(op_root(v.args[0])) & xs]
            tree_variant = any("agg" not in str(d) for d in [0]) and bool(views)
            if not tree_variant:
                # match arm binding: `BinEntry::Tree(ref tree_bin)` -- a reference into the entry downcast to Tree
                for l in range(len(b.locals)):
                    if b.ty(l).get("base") == "node::TreeBin" and fl.closure_locals(l) & xs:
                        tree_variant = True
                        break
            if tree_variant:
                whole.append((c, xs))
        if not whole:
            continue
        n_whole += len(whole)
        doubled = set()
        for c in b.calls:
            k = an.is_retire(c)
            if k is None or b.is_cleanup(c.b) or k >= len(c.args):
                continue
            v = op_root(c.args[k])
            if v is None or str((b.ty(v).get("args") or [""])[-1]) != "V":
                continue
            # the value was loaded from a node reached from the tree bin's own list
            from_tree = None
            for rc in fl.call_roots(v):
                if rc is None or is_reclaim_atomic(rc) != "load" or ("node::Node", "value") not in receiver_field(b, rc, 0):
                    continue
                node_ls = fl.closure_locals(op_root(rc.args[0])) if rc.args and op_root(rc.args[0]) is not None else set()
                for l in node_ls:
                    for fc in fl.call_roots(l):
                        if fc is not None and is_reclaim_atomic(fc) == "load" and ("node::TreeBin", "first") in receiver_field(b, fc, 0):
                            tb_ls = fl.closure_locals(op_root(fc.args[0])) if fc.args and op_root(fc.args[0]) is not None else set()
                            for wc, xs in whole:
                                if tb_ls & xs:
                                    from_tree = wc
            n += 1
            if from_tree is None:
                continue
            both = c.point in reach(b, after(b, from_tree.point, label="ret")) or from_tree.point in reach(b, after(b, c.point, label="ret"))
            if both:
                doubled.add(from_tree.point)
            ctx.inst(rule, b, "value of a tree node retired once", c.span, not both,
                     "the container is not retired whole on the same path" if not both else
                     "the value of a node of the tree bin is retired at %s and the tree bin itself is retired whole at %s (its Drop frees every node "
                     "together with its value): the value is freed twice" % (c.span, from_tree.span))
        for wc, _ in whole:
            if wc.point not in doubled:
                ctx.inst(rule, b, "tree bin retired whole", wc.span, True, "none of its nodes' values is retired one by one in this body")
    if not n_whole:
        ctx.fail_closed("%s: no tree bin is retired whole anywhere (clear's tree arm was expected)" % rule)


def rule_split_counters(ctx, facts, rule="O11"):
    """the counters of a splitting copy walk count the nodes: in a loop of `transfer` that allocates one fresh node per visited node and
    keeps usize tallies (`low_count`, `high_count`), every trip through the loop that allocates a node increments exactly one tally
    exactly once.  The tallies decide whether the old tree bin is re-used for one half (count 0 on the other side) and whether a half is
    untreeified; a tally that misses the first node of a list makes a 7 + 1 split re-use the old bin -- which still holds the eighth
    node -- for the low half while a copy of that node is stored in the high half: iterators yield the key twice, and both copies share
    one value."""
    from .affine import evaluator, Aff, TOP
    from .analysis import back_edges, loop_blocks, regions
    from .anchors import is_fresh_alloc
    b = facts.body("map::HashMap::transfer")
    ev = evaluator(b)
    locks = {r.call.b for r in regions(b)}
    n = 0
    for be in back_edges(b, unwind=False):
        tail, head = be
        L = loop_blocks(b, be, unwind=False)
        if b.is_cleanup(head) or (locks & set(L)):
            continue
        allocs = [c for c in b.calls if c.b in L and is_fresh_alloc(b, c) and "node::BinEntry" in b.ty(c.dst_local()).get("s", "")]
        if not allocs:
            continue
        incs = {}
        for l in range(len(b.locals)):
            if b.ty(l).get("s") != "usize" or not b.local_name(l):
                continue
            for pt, f in ev.def_forms(l):
                if pt[0] in L and f is not TOP and f == Aff.sym(("phi", l)) + Aff.const(1):
                    incs[Point(pt[0], pt[1])] = l
        if len({l for l in incs.values()}) < 2:
            continue          # not a splitting walk with tallies
        outside = [x for x in range(len(b.blocks)) if x not in L]
        for a in allocs:
            n += 1
            # (a) a way round the loop from the allocation back to the head without any increment
            none = Point(head, 0) in reach(b, after(b, a.point, label="ret"), avoid=set(incs), avoid_blocks=outside, unwind=False)
            # (b) two increments on one trip
            twice = None
            for ip in incs:
                r2 = reach(b, after(b, ip), avoid={Point(head, 0)}, avoid_blocks=outside, unwind=False)
                if any(jp in r2 for jp in incs):
                    twice = ip
            ok = not none and twice is None
            names = sorted({b.local_name(l) for l in incs.values()})
            ctx.inst(rule, b, "tallies %s count the nodes copied at %s" % (" / ".join(names), a.span.split(":", 1)[1]), a.span, ok,
                     "every trip through the walk that copies a node increments exactly one of the tallies once" if ok else
                     ("a trip through the walk copies a node (allocated at %s) and reaches the next iteration without incrementing %s: the tally is "
                      "smaller than the list it describes, so the decision to re-use the old bin / to untreeify a half is taken on a wrong length"
                      % (a.span, " or ".join(names)) if none else
                      "one trip through the walk increments a tally twice (at %s and again)" % b.span_at(twice)))
    if n < 1:
        ctx.fail_closed("%s: the splitting walk of transfer's tree arm (fresh node per visited node, two usize tallies) was not found" % rule)


def rule_split_prev(ctx, facts, rule="O12"):
    """in a splitting copy walk each new node is wired into ONE of the lists: the tail whose value is stored into the fresh node's `prev`
    is the tail that the same trip then advances to the fresh node (so `prev` and `next` describe the same list).  A node of the high
    half whose `prev` is the low tail makes the removal / iteration of the high bin walk into the other bin."""
    from .analysis import back_edges, loop_blocks, regions
    from .anchors import is_fresh_alloc
    from .rules_c07 import private_roots
    b = facts.body("map::HashMap::transfer")
    fl = flow(b)
    locks = {r.call.b for r in regions(b)}
    n = 0
    for be in back_edges(b, unwind=False):
        tail, head = be
        L = loop_blocks(b, be, unwind=False)
        if b.is_cleanup(head) or (locks & set(L)):
            continue
        if not any(c.b in L and is_fresh_alloc(b, c) and "node::BinEntry" in b.ty(c.dst_local()).get("s", "") for c in b.calls):
            continue
        outside = [x for x in range(len(b.blocks)) if x not in L]
        for c in b.calls:
            if c.b not in L or b.is_cleanup(c.b) or is_reclaim_atomic(c) != "store" or len(c.args) < 2:
                continue
            if ("node::TreeNode", "prev") not in receiver_field(b, c, 0):
                continue
            tl = op_root(c.args[0])
            if tl is None or private_roots(b, tl):
                continue          # only the fresh node's own prev
            v = op_root(c.args[1])
            if v is None:
                continue
            # the named variable the stored value was copied from (backwards along plain copies only)
            x = v
            hops = 0
            while not b.local_name(x) and hops < 6:
                hops += 1
                srcs = [d for k, d, _ in fl.sources(x) if k == "copy"]
                if len(srcs) != 1:
                    break
                x = srcs[0]
            ds = [d for d in b.defs.get(x, []) if d[1] in ("assign", "call")]
            if not (b.local_name(x) and any(d[0][0] in L for d in ds) and any(d[0][0] not in L for d in ds)):
                continue
            n += 1
            defs_in = {Point(d[0][0], d[0][1]) for d in b.defs.get(x, []) if d[0][0] in L}
            r = reach(b, after(b, c.point, label="ret"), avoid=defs_in, avoid_blocks=outside, unwind=False)
            ok = Point(head, 0) not in r
            ctx.inst(rule, b, "`prev` of the new node is the tail `%s` of the list it joins" % b.local_name(x), c.span, ok,
                     "the same trip advances `%s` to the new node" % b.local_name(x) if ok else
                     "the new node's prev is taken from `%s` at %s, but a trip that does so reaches the next iteration without advancing `%s`: "
                     "the node was appended to another list than the one its prev link points into" % (b.local_name(x), c.span, b.local_name(x)))
    if n < 2:
        ctx.fail_closed("%s: expected the two prev stores (low / high) of transfer's tree split, found %d" % (rule, n))


def run(ctx, facts):
    ctx.rule("O12", "in transfer's tree split the prev link of a new node comes from the tail of the list the node is appended to", floor=2)
    rule_split_prev(ctx, facts)
    ctx.rule("O11", "the tallies of transfer's splitting walk count the nodes: exactly one increment per copied node", floor=1)
    rule_split_counters(ctx, facts)
    ctx.rule("O10", "a tree bin retired whole (its Drop frees nodes and values) does not also have its nodes' values retired one by one", floor=1)
    rule_o10(ctx, facts)
    ctx.rule("O9", "lock -> re-validate the head -> only then unlink and retire (rule L1 of C01): a removal carried out on a bin that a resize "
                   "has superseded retires a value that the new table's copy of the entry still shares", floor=11)
    from .rules_c01 import rule_l1
    rule_l1(ctx, facts, rule="O9")
    ctx.rule("O8", "a loop retiring the nodes of a superseded list is left only when its cursor is exhausted", floor=2)
    rule_o8(ctx, facts)
    ctx.rule("O7", "a private list of fresh tree nodes is handed to exactly one of TreeBin::new / drop_tree_nodes on every path", floor=3,
             floor_note="transfer low/high, treeify_bin hd")
    rule_o7(ctx, facts)
    ctx.rule("O6", "a tree bin overwritten in its table slot is retired or re-published into a table before the next lock / return -- exactly one of the two "
                   "(ESP with interval refinement of the split counters)", floor=5, floor_note="transfer, clear, put, compute_if_present, replace_node")
    rule_o6(ctx, facts)
    ctx.rule("O1", "owners produced by swap / boxed / failed CAS are consumed (retire, free, publish, return, asserted null)", floor=30,
             floor_note="12 swaps + 23 boxed + 1 CAS failure")
    ctx.rule("O2", "shared values: containers are freed without the values; superseded tree bins via defer_drop_without_values", floor=8)
    ctx.rule("O3", "put: value Owned -> Published | Returned, consistent with the PutResult variant on every return", floor=1)
    ctx.rule("O4", "removed/replaced value retired exactly once (callee iff drop_value and no untreeify, else caller)", floor=3)
    ctx.rule("O5", "teardown frees nodes, values, tree bins, the table and the forwarding node", floor=6)
    rule_o1(ctx, facts)
    rule_o2(ctx, facts)
    rule_o3_put(ctx, facts)
    rule_o4(ctx, facts)
    rule_o5(ctx, facts)
