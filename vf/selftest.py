"""Mutant self-test (DESIGN §6.3): every patch in /verif/mutants is applied to a scratch copy of /repo that must still
compile; positive mutants must be reported by the named rule, negative (behaviour-preserving) mutants must stay silent."""
import concurrent.futures
import glob
import io
import json
import os
import re
import shutil
import subprocess
import sys
import contextlib

from . import extract as X

VERIF = X.VERIF


def parse(path):
    meta = {}
    for line in open(path):
        if not line.startswith("# "):
            break
        k, _, v = line[2:].partition(":")
        meta[k.strip()] = v.strip()
    meta["name"] = os.path.basename(path)[:-6]
    meta["path"] = path
    return meta


def run_one(meta, repo, tier="quick"):
    work = X.workdir()
    tree = os.path.join(work, "tree")
    res = dict(name=meta["name"], property=meta.get("property"), expect=meta.get("expect"), kind=meta.get("kind", "positive"))
    try:
        X.copy_tree(repo, tree)
        p = subprocess.run(["patch", "-p1", "--no-backup-if-mismatch", "-s", "-f", "-i", meta["path"]], cwd=tree,
                           stdout=subprocess.PIPE, stderr=subprocess.STDOUT, text=True)
        if p.returncode != 0:
            res["status"] = "skipped"
            res["why"] = "patch no longer applies: " + p.stdout[-300:]
            return res
        cmd = [sys.executable, "-B", "-m", "vf.main", "check", meta["property"], "--tier", tier, "--repo", tree]
        env = dict(os.environ)
        env["VF_EVIDENCE_DIR"] = os.path.join(work, "evidence")
        env["VF_NO_SELFTEST"] = "1"
        q = subprocess.run(cmd, cwd=VERIF, env=env, stdout=subprocess.PIPE, stderr=subprocess.STDOUT, text=True)
        out = q.stdout
        res["exit"] = q.returncode
        viol = [v for v in re.findall(r"^  ([A-Z]\d+[a-z]?) (.*)$", out, re.M) if "instances=" not in v[1]]
        rules = sorted({v[0] for v in viol})
        res["rules_fired"] = rules
        res["lines"] = [l for l in out.splitlines() if re.match(r"^  [A-Z]\d+[a-z]? ", l) and "instances=" not in l][:6]
        if "fact extraction failed" in out:
            res["status"] = "does-not-compile"
            res["why"] = out[-600:]
        elif res["kind"] == "negative":
            res["status"] = "ok" if q.returncode == 0 else "FALSE-ALARM"
        else:
            exp = [e.strip() for e in (meta.get("expect") or "").split(",") if e.strip()]
            hit = q.returncode == 1 and (not exp or any(e in rules for e in exp))
            res["status"] = "caught" if hit else "MISSED"
            if not hit:
                res["why"] = out[-800:]
        return res
    finally:
        shutil.rmtree(work, ignore_errors=True)


def cross_negatives(repo=None, jobs=8, only_props=None, exclude_own=False, sample=None, seed=0):
    """every behaviour-preserving mutant must be silent under EVERY claimed property, not only the one it was written for.
    `sample`: run only that many of them, a window that rotates with `seed` (the thorough tier of one property; the whole matrix is
    `./vf.sh selftest --cross-negatives`)"""
    repo = repo or X.REPO
    metas = [parse(p) for p in sorted(glob.glob(os.path.join(VERIF, "mutants", "*.patch")))]
    metas = [m for m in metas if m.get("kind") == "negative"]
    cross_negatives.last_total = len(metas)
    if sample and len(metas) > sample:
        k = (int(seed) * sample) % len(metas)
        metas = (metas + metas)[k:k + sample]
    props = [c["property_id"] for c in json.load(open(os.path.join(VERIF, "MANIFEST.json")))["checks"]]
    if only_props:
        props = [p for p in props if p in only_props]
    jobs_l = []
    for m in metas:
        for p in props:
            if exclude_own and m.get("property") == p:
                continue
            mm = dict(m)
            mm["property"] = p
            mm["name"] = "%s@%s" % (m["name"], p)
            jobs_l.append(mm)
    bad = []
    with concurrent.futures.ThreadPoolExecutor(max_workers=jobs) as ex:
        for r in ex.map(lambda m: run_one(m, repo), jobs_l):
            if r["status"] != "ok":
                bad.append(r)
                print("%-12s %s fired=%s exit=%s" % (r["status"], r["name"], r.get("rules_fired"), r.get("exit")))
                sys.stdout.flush()
    print("cross-negatives: %d runs (%d behaviour-preserving mutants x %d properties), %d not silent" % (len(jobs_l), len(metas), len(props), len(bad)))
    cross_negatives.last_runs = len(jobs_l)
    return bad


def selftest(repo=None, only=None, props=None, jobs=8, tier="quick", neg_sample=None, seed=0):
    repo = repo or X.REPO
    metas = [parse(p) for p in sorted(glob.glob(os.path.join(VERIF, "mutants", "*.patch")))]
    seeded = sorted(glob.glob(os.path.join(VERIF, "seeded", "*", "patch.diff")))
    for p in seeded:
        mj = os.path.join(os.path.dirname(p), "meta.json")
        if os.path.exists(mj):
            m = json.load(open(mj))
            metas.append(dict(name="seeded-" + os.path.basename(os.path.dirname(p)), path=p, property=m.get("property"),
                              expect=m.get("expect_rule", ""), kind="positive", what=m.get("needs", "")))
    if only:
        metas = [m for m in metas if re.search(only, m["name"])]
    if props:
        metas = [m for m in metas if m.get("property") in props]
    if neg_sample:
        # the thorough tier of one property: every positive and seeded change, and a rotating window of its behaviour-preserving ones
        negs = [m for m in metas if m.get("kind") == "negative"]
        if len(negs) > neg_sample:
            k = (int(seed) * neg_sample) % len(negs)
            keep = {id(m) for m in (negs + negs)[k:k + neg_sample]}
            metas = [m for m in metas if m.get("kind") != "negative" or id(m) in keep]
    results = []
    with concurrent.futures.ThreadPoolExecutor(max_workers=jobs) as ex:
        for r in ex.map(lambda m: run_one(m, repo, tier), metas):
            results.append(r)
            print("%-14s %-4s %-44s expect=%-8s fired=%s %s" % (r["status"], r["property"], r["name"], r.get("expect"), r.get("rules_fired"),
                                                                ("| " + r.get("why", "")[-300:].replace("\n", " ")) if r["status"] in ("MISSED", "FALSE-ALARM", "does-not-compile", "skipped") else ""))
            sys.stdout.flush()
    bad = [r for r in results if r["status"] in ("MISSED", "FALSE-ALARM")]
    print("selftest: %d mutants, %d caught/ok, %d missed/false-alarm, %d skipped" % (
        len(results), len([r for r in results if r["status"] in ("caught", "ok")]), len(bad),
        len([r for r in results if r["status"] in ("skipped", "does-not-compile")])))
    return results
