"""Exact summaries of helper functions by MIR inlining.

The rules are written against the functions of the pinned tree (the property anchors name them: put, transfer, add_count, ...).  A
refactoring that moves part of such a function into a new private helper -- or a change that hides a step in one -- must not change what
the rules see.  Every crate-private, non-recursive function whose name is NOT one of the functions known from the pinned tree
(vf/known_functions.txt) is therefore inlined into its callers before any rule runs: arguments become assignments to the callee's
parameter locals, `return` becomes an assignment to the call's destination followed by a jump to its continuation, and the callee's
unwinding continues in the caller's cleanup.  This is the exact semantics of the call, so no rule is weakened by it; the helper itself
disappears as a separate body (its closures stay).  Functions that cannot be inlined (recursive, address taken, trait methods) are left
alone and the rules see them as they are."""
import copy
import json
import os

from .facts import strip_generics

HERE = os.path.dirname(os.path.abspath(__file__))
MAX_ROUNDS = 6
MAX_BLOCKS = 4000


def known_functions():
    """{generic-stripped id: signature}"""
    p = os.path.join(HERE, "known_functions.txt")
    out = {}
    with open(p) as f:
        for l in f:
            if not l.strip() or l.startswith("#"):
                continue
            k, _, sig = l.rstrip("\n").partition("\t")
            out[k.strip()] = sig.strip()
    return out


def _norm_sig(sig):
    import re
    s = re.sub(r"^for<[^>]*>\s*", "", sig or "")
    s = re.sub(r"'[A-Za-z_][A-Za-z0-9_]*", "'_", s)       # lifetime names do not matter
    return re.sub(r"\s+", " ", s).strip()


def _known_params():
    try:
        with open(os.path.join(HERE, "known_items.json")) as f:
            return json.load(f).get("fns", {})
    except Exception:
        return {}


KNOWN_PARAMS = _known_params()


def _known_adts():
    try:
        with open(os.path.join(HERE, "known_items.json")) as f:
            return set(json.load(f).get("adts", {}))
    except Exception:
        return set()


KNOWN_ADTS = _known_adts()
CRATE_MODS = ("map::", "node::", "raw::", "iter::", "set::", "map_ref::", "set_ref::", "reclaim::", "serde_impls::", "rayon_impls::")


def reidentify(raw, known):
    """private functions of the pinned tree that were renamed or moved: an unknown function with the same signature as exactly one
    MISSING known function, in the same impl/module (rename) or with the same name elsewhere (move), is that function.  Returns
    {new generic-stripped id: known id}; the bodies keep their ids, the rules see them under the known name."""
    present = {strip_generics(b["id"]) for b in raw["bodies"] if b["kind"] != "Closure"}
    missing = {k: _norm_sig(v) for k, v in known.items() if k not in present}
    unknown = [b for b in raw["bodies"] if b["kind"] != "Closure" and strip_generics(b["id"]) not in known]
    alias = {}
    taken = set()
    for b in unknown:
        sid = strip_generics(b["id"])
        sig = _norm_sig(b.get("sig", ""))
        cont, _, name = sid.rpartition("::")
        cands = []
        pnames = [b["locals"][i].get("name") for i in range(1, b.get("args", 0) + 1)]
        for k, ksig in missing.items():
            if k in taken or ksig != sig:
                continue
            kcont, _, kname = k.rpartition("::")
            # the parameters keep their names when a function is renamed or moved; a different function that merely has the same
            # types (the second half of a split one, say) does not pass for it
            kp = [n for n, _ in KNOWN_PARAMS.get(k, {}).get("params", [])]
            if kp and pnames and kp != pnames and kname != name:
                continue
            if kcont == cont or kname == name:
                cands.append(k)
        if len(cands) == 1:
            alias[sid] = cands[0]
            taken.add(cands[0])
    return alias


def _erase_lt(t):
    import re
    t = re.sub(r"'[A-Za-z_][A-Za-z0-9_]*", "'_", t or "")
    return re.sub(r"\s+", " ", t).strip()


def _sig_ret(sig):
    s = _norm_sig(sig)
    depth = 0
    for i, c in enumerate(s):
        if c in "(<[":
            depth += 1
        elif c in ")>]" and s[i - 1] != "-":
            depth -= 1
            if depth == 0 and c == ")":
                rest = s[i + 1:].strip()
                return rest[2:].strip() if rest.startswith("->") else "()"
    return "()"


def fuse_splits(raw, known, alias):
    """a private function of the pinned tree that was split into two halves called one right after the other (`add_count` =
    `bump_count` + `resize_if_needed(count, ..)`): when a known function K is missing and there is exactly one pair of unknown
    functions g, h next to where K lived such that (a) every call of g is followed at once by a call of h that receives g's result, and
    every call of h follows a call of g in that way, (b) the parameters of g and h, without the one that carries g's result and with
    `self` counted once, are K's parameters and h returns what K returned -- then K is re-created as `{ let t = g(..); h(.., t, ..) }`
    and every such pair of calls becomes one call of K.  g and h are unknown helpers and are inlined into the re-created K like any
    other.  This is the exact composition, so no rule is weakened.  Returns the list of re-created ids."""
    bodies = raw["bodies"]
    present = {strip_generics(b["id"]) for b in bodies if b["kind"] != "Closure"}
    missing = [k for k in known if k not in present and k not in set(alias.values()) and k in KNOWN_PARAMS]
    if not missing:
        return []
    unknown = [b for b in bodies if b["kind"] != "Closure" and strip_generics(b["id"]) not in known
               and strip_generics(b["id"]) not in alias and not b.get("exported") and not (b.get("impl") or {}).get("trait")]
    by_id = {b["id"]: b for b in bodies}
    sites = {}
    for b in bodies:
        for bi, blk in enumerate(b["blocks"]):
            t = blk["term"]
            if t["k"] == "call":
                r = (t.get("callee") or {}).get("resolved") or (t.get("callee") or {}).get("def")
                if r in by_id:
                    sites.setdefault(r, []).append((b, bi))
    made = []
    for K in missing:
        kp = [(n, _erase_lt(t)) for n, t in KNOWN_PARAMS[K]["params"]]
        kret = _erase_lt(_sig_ret(known[K]))
        kcont = K.rpartition("::")[0]
        found = []
        for g in unknown:
            if strip_generics(g["id"]).rpartition("::")[0] != kcont or not sites.get(g["id"]):
                continue
            gp = [(g["locals"][i].get("name"), _erase_lt(g["locals"][i]["s"])) for i in range(1, g.get("args", 0) + 1)]
            gret = _erase_lt(g["locals"][0]["s"])
            if gret == "()":
                continue
            for h in unknown:
                if h is g or strip_generics(h["id"]).rpartition("::")[0] != kcont or not sites.get(h["id"]):
                    continue
                if len(sites[h["id"]]) != len(sites[g["id"]]):
                    continue
                hp = [(h["locals"][i].get("name"), _erase_lt(h["locals"][i]["s"])) for i in range(1, h.get("args", 0) + 1)]
                if _erase_lt(h["locals"][0]["s"]) != kret:
                    continue
                for j, (_, ht) in enumerate(hp):
                    if ht != gret:
                        continue
                    rest = gp + [x for i, x in enumerate(hp) if i != j]
                    if gp and hp and gp[0][0] == "self" and hp[0][0] == "self" and j != 0:
                        rest = gp + [x for i, x in enumerate(hp) if i != j and i != 0]
                    if sorted(t for _, t in rest) != sorted(t for _, t in kp):
                        continue
                    # every call of g runs straight into a call of h that takes its result at position j
                    ok = True
                    pairs = []
                    hsites = {(id(b), bi) for b, bi in sites[h["id"]]}
                    for b, bi in sites[g["id"]]:
                        t = b["blocks"][bi]["term"]
                        tb = t.get("target")
                        if tb is None or (id(b), tb) not in hsites or t["dst"]["proj"]:
                            ok = False
                            break
                        blk2 = b["blocks"][tb]
                        a = blk2["term"]["args"][j]
                        pl = a.get("move") or a.get("copy")
                        src = pl["local"] if pl and not pl["proj"] else None
                        hops = 0
                        while src is not None and src != t["dst"]["local"] and hops < 4:
                            hops += 1
                            nxt = None
                            for st in blk2["stmts"]:
                                if st["k"] == "assign" and st["dst"]["local"] == src and not st["dst"]["proj"]:
                                    u = st["rv"].get("use") or {}
                                    pl2 = u.get("move") or u.get("copy")
                                    if pl2 and not pl2["proj"]:
                                        nxt = pl2["local"]
                            src = nxt
                        if src != t["dst"]["local"]:
                            ok = False
                            break
                        pairs.append((b, bi, tb))
                    if ok and pairs:
                        found.append((g, h, j, gp, hp, pairs))
        if len(found) != 1:
            continue
        g, h, j, gp, hp, pairs = found[0]
        # where each of K's parameters comes from: ('g', i) / ('h', i), by name and type, then by type alone
        pool = [("g", i, n, t) for i, (n, t) in enumerate(gp)] + [("h", i, n, t) for i, (n, t) in enumerate(hp) if i != j]
        src_of = []
        used = set()
        bad = False
        for n, t in kp:
            c = [x for x in pool if x[3] == t and x[2] == n and (x[0], x[1]) not in used] or \
                [x for x in pool if x[3] == t and (x[0], x[1]) not in used]
            if n == "self":
                c = [x for x in pool if x[2] == "self" and x[3] == t][:1]
            elif len(c) != 1 and len({x[3] for x in c}) == 1 and c and c[0][2] == n:
                c = c[:1]
            if len(c) != 1:
                bad = True
                break
            src_of.append((c[0][0], c[0][1]))
            used.add((c[0][0], c[0][1]))
        if bad:
            continue
        name = K.rpartition("::")[2]
        gid = g["id"]
        kid = gid[:len(gid) - len(g["name"])] + name
        first_g = sites[g["id"]][0]
        first_h = sites[h["id"]][0]
        gcal = copy.deepcopy(first_g[0]["blocks"][first_g[1]]["term"]["callee"])
        hcal = copy.deepcopy(first_h[0]["blocks"][first_h[1]]["term"]["callee"])
        kcal = copy.deepcopy(gcal)
        for f in ("def", "path", "resolved"):
            if kcal.get(f):
                kcal[f] = kid
        kcal["name"] = name
        kb = {k: copy.deepcopy(v) for k, v in h.items() if k not in ("locals", "blocks", "promoted", "debug_places", "inlined")}
        kb.update({"id": kid, "name": name, "args": len(kp), "sig": known[K], "span": g["span"], "promoted": [], "debug_places": [],
                   "fused_from": [g["id"], h["id"]]})
        locs = [copy.deepcopy(h["locals"][0])]
        for (w, i), (n, _) in zip(src_of, kp):
            l = copy.deepcopy((g if w == "g" else h)["locals"][1 + i])
            l["name"] = n
            locs.append(l)
        tmp = len(locs)
        locs.append(copy.deepcopy(g["locals"][0]))
        kb["locals"] = locs

        def param_of(w, i):
            return 1 + src_of.index((w, i)) if (w, i) in src_of else (1 + [n for n, _ in kp].index("self"))
        gargs = [{"copy": {"local": param_of("g", i), "proj": []}} for i in range(len(gp))]
        hargs = [({"move": {"local": tmp, "proj": []}} if i == j else {"copy": {"local": param_of("h", i), "proj": []}}) for i in range(len(hp))]
        sp = g["span"]
        kb["blocks"] = [
            {"cleanup": False, "stmts": [], "term": {"span": sp, "k": "call", "callee": gcal, "args": gargs, "dst": {"local": tmp, "proj": []},
                                                      "target": 1, "unwind": "continue", "fn_span": sp}},
            {"cleanup": False, "stmts": [], "term": {"span": sp, "k": "call", "callee": hcal, "args": hargs, "dst": {"local": 0, "proj": []},
                                                      "target": 2, "unwind": "continue", "fn_span": sp}},
            {"cleanup": False, "stmts": [], "term": {"span": sp, "k": "return"}},
        ]
        for b, bi, tb in pairs:
            t1 = b["blocks"][bi]["term"]
            blk2 = b["blocks"][tb]
            t2 = blk2["term"]
            keep = {(a.get("move") or a.get("copy") or {}).get("local") for a in t1["args"]}
            blk2["stmts"] = [st for st in blk2["stmts"] if not (st["k"] == "storage_dead" and st["local"] in keep)]
            args = []
            for (w, i) in src_of:
                a = copy.deepcopy((t1 if w == "g" else t2)["args"][i])
                args.append(a)
            t2["callee"] = copy.deepcopy(kcal)
            t2["args"] = args
            t2["fused_call"] = [g["name"], h["name"]]
            b["blocks"][bi]["term"] = {"k": "goto", "target": tb, "span": t1.get("span", b["span"]), "fused_first_half": g["name"]}
        bodies.append(kb)
        by_id[kid] = kb
        made.append(kid)
    return made


def _shift(o, L0, B0, P0):
    """deep copy of a statement / terminator with locals, blocks and promoted indexes renumbered"""
    if isinstance(o, dict):
        out = {}
        for k, v in o.items():
            if k == "local" and isinstance(v, int):
                out[k] = v + L0
            elif k == "index" and isinstance(v, int):
                out[k] = v + L0
            elif k in ("target", "otherwise") and isinstance(v, int):
                out[k] = v + B0
            elif k == "unwind" and isinstance(v, int):
                out[k] = v + B0
            elif k == "targets" and isinstance(v, list):
                out[k] = [[x[0], x[1] + B0] for x in v]
            elif k == "succ" and isinstance(v, list):
                out[k] = [x + B0 for x in v]
            elif k == "promoted" and isinstance(v, int) and "const" in o:
                out[k] = v + P0
            else:
                out[k] = _shift(v, L0, B0, P0)
        return out
    if isinstance(o, list):
        return [_shift(x, L0, B0, P0) for x in o]
    return o


def _address_taken(body, local):
    for cb in body["blocks"]:
        for st in cb["stmts"]:
            if st["k"] == "assign":
                rv = st["rv"]
                pl = rv.get("ref") or rv.get("rawptr")
                if pl and pl["local"] == local:
                    return True
    return False


def _subst_consts(o, consts):
    """replace operands `copy/move <param>` by the constant passed for that parameter"""
    if isinstance(o, dict):
        for key in ("copy", "move"):
            pl = o.get(key)
            if isinstance(pl, dict) and "local" in pl and not pl.get("proj") and pl["local"] in consts and set(o.keys()) <= {"copy", "move"}:
                c = copy.deepcopy(consts[pl["local"]])
                o.clear()
                o.update(c)
                return
        for v in o.values():
            _subst_consts(v, consts)
    elif isinstance(o, list):
        for x in o:
            _subst_consts(x, consts)


def propagate_const_temps(body, first_new):
    """constant propagation for the locals introduced by inlining: a local >= first_new with exactly one definition, which is a
    constant, and whose address is never taken, is replaced by that constant at its uses"""
    ndefs, cdef = {}, {}
    for cb in body["blocks"]:
        for st in cb["stmts"]:
            if st["k"] == "assign":
                d = st["dst"]["local"]
                ndefs[d] = ndefs.get(d, 0) + 1
                if not st["dst"]["proj"] and "use" in st["rv"] and "const" in st["rv"]["use"]:
                    cdef[d] = st["rv"]["use"]
        t = cb["term"]
        if t["k"] == "call" and t.get("dst"):
            d = t["dst"]["local"]
            ndefs[d] = ndefs.get(d, 0) + 1
    consts = {l: c for l, c in cdef.items() if l >= first_new and ndefs.get(l) == 1 and not _address_taken(body, l)}
    if not consts:
        return 0
    for cb in body["blocks"]:
        for st in cb["stmts"]:
            if st["k"] == "assign":
                _subst_consts(st["rv"], consts)
        t = cb["term"]
        for key in ("args", "on", "cond"):
            if key in t:
                _subst_consts(t[key], consts)
    return len(consts)


def sroa(body):
    """scalar replacement of aggregates: a local that is only ever (a) built whole as a struct / tuple, (b) moved or copied whole into
    another such local and (c) read field by field is split into one local per field.  A helper that returns `(value, removed, count)`
    or a small struct which its caller destructures thereby hands over plain values again, as the code did before the helper existed,
    and copy-based value flow sees through it."""
    blocks = body["blocks"]
    nloc = len(body["locals"])
    whole_defs, bad = {}, set()
    arity = {}

    def single_field(pl):
        pr = pl["proj"]
        return len(pr) >= 1 and isinstance(pr[0], dict) and "field" in pr[0] and isinstance(pr[0]["field"], int)

    def scan_operand(o, ctx_whole_dst=None):
        pl = o.get("move") or o.get("copy") if isinstance(o, dict) else None
        if not pl:
            return
        if not pl["proj"]:
            if ctx_whole_dst is None:
                bad.add(pl["local"])
        elif not single_field(pl):
            bad.add(pl["local"])
        for e in pl["proj"]:
            if isinstance(e, dict) and "index" in e:
                bad.add(e["index"])
    for blk in blocks:
        for st in blk["stmts"]:
            if st["k"] in ("storage_live", "storage_dead"):
                continue
            if st["k"] != "assign":
                for v in st.values():
                    if isinstance(v, dict) and "local" in v:
                        bad.add(v["local"])
                continue
            d, rv = st["dst"], st["rv"]
            if d["proj"]:
                bad.add(d["local"])
            if "agg" in rv:
                a = rv["agg"]
                structlike = ("tuple" in a) or ("adt" in a and len(a.get("fields", [])) == len(rv["ops"]) and a.get("variant_count", 1) == 1
                                                and not a["adt"].startswith(("std::option", "core::option", "std::result", "core::result")))
                if not d["proj"] and structlike and "closure" not in a:
                    whole_defs.setdefault(d["local"], []).append(("agg", st))
                    n0 = len(rv["ops"])
                    if arity.setdefault(d["local"], n0) != n0:
                        bad.add(d["local"])
                elif not d["proj"]:
                    bad.add(d["local"])
                for o in rv["ops"]:
                    scan_operand(o)
            elif "use" in rv:
                pl = rv["use"].get("move") or rv["use"].get("copy")
                if pl and not pl["proj"] and not d["proj"]:
                    whole_defs.setdefault(d["local"], []).append(("copy", st))     # validated below
                else:
                    if not d["proj"]:
                        bad.add(d["local"]) if False else None
                    scan_operand(rv["use"])
            else:
                for key in ("ref", "rawptr", "discr", "cast", "a", "b"):
                    v = rv.get(key)
                    if isinstance(v, dict) and "local" in v:
                        bad.add(v["local"])
                    elif isinstance(v, dict):
                        scan_operand(v)
                for o in rv.get("ops", []):
                    scan_operand(o)
        t = blk["term"]
        for key in ("on", "cond"):
            if key in t:
                scan_operand(t[key])
        for o in t.get("args", []):
            scan_operand(o)
        for key in ("dst", "place"):
            if key in t and isinstance(t[key], dict) and "local" in t[key]:
                bad.add(t[key]["local"])
    cand = {l for l in whole_defs if l not in bad and l != 0 and l > body.get("args", 0)}
    # arities flow along whole copies (to a fixpoint, whatever the order the locals are visited in)
    grew = True
    while grew:
        grew = False
        for l in cand:
            if l in arity:
                continue
            for k, st in whole_defs[l]:
                if k == "copy":
                    src = (st["rv"]["use"].get("move") or st["rv"]["use"].get("copy"))["local"]
                    if src in cand and src in arity:
                        arity[l] = arity[src]
                        grew = True
                        break
    # every whole definition is an aggregate of the same arity or a whole copy from another candidate; plain locals that merely receive
    # a whole copy of a non-candidate are not touched
    changed = True
    while changed:
        changed = False
        for l in list(cand):
            ok = l in arity or any(k == "copy" for k, _ in whole_defs[l])
            for k, st in whole_defs[l]:
                if k == "copy":
                    src = (st["rv"]["use"].get("move") or st["rv"]["use"].get("copy"))["local"]
                    if src not in cand:
                        ok = False
                    elif src in arity:
                        if arity.setdefault(l, arity[src]) != arity[src]:
                            ok = False
            if l not in arity:
                ok = ok and any(k == "copy" for k, _ in whole_defs[l])
            if not ok:
                cand.discard(l)
                changed = True
    # whole copies OUT of a candidate into a non-candidate would lose the value: such sources are not candidates either
    changed = True
    while changed:
        changed = False
        for blk in blocks:
            for st in blk["stmts"]:
                if st["k"] == "assign" and "use" in st["rv"] and not st["dst"]["proj"]:
                    pl = st["rv"]["use"].get("move") or st["rv"]["use"].get("copy")
                    if pl and not pl["proj"] and pl["local"] in cand and st["dst"]["local"] not in cand:
                        cand.discard(pl["local"])
                        changed = True
        for l in list(cand):
            if l not in arity:
                cand.discard(l)
                changed = True
            for k, st in whole_defs[l]:
                if k == "copy" and (st["rv"]["use"].get("move") or st["rv"]["use"].get("copy"))["local"] not in cand:
                    cand.discard(l)
                    changed = True
    if not cand:
        return 0
    fld = {}
    for l in sorted(cand):
        for i in range(arity[l]):
            body["locals"].append({"s": "?", "head": "?", "base": "?", "refs": 0, "sroa_of": [l, i]})
            fld[(l, i)] = len(body["locals"]) - 1

    def set_ty(nl, o, src_body=body):
        pl = o.get("move") or o.get("copy")
        if pl and not pl["proj"]:
            t0 = dict(body["locals"][pl["local"]])
            t0.pop("name", None)
            t0["sroa_of"] = body["locals"][nl]["sroa_of"]
            body["locals"][nl] = t0
        elif "const" in o and "ty" in o:
            body["locals"][nl].update({"s": o["ty"], "head": o["ty"], "base": o["ty"]})
    for blk in blocks:
        out = []
        for st in blk["stmts"]:
            if st["k"] in ("storage_live", "storage_dead") and st["local"] in cand:
                for i in range(arity[st["local"]]):
                    out.append({"k": st["k"], "local": fld[(st["local"], i)]})
                continue
            if st["k"] == "assign":
                d, rv = st["dst"], st["rv"]
                if not d["proj"] and d["local"] in cand:
                    if "agg" in rv:
                        for i, o in enumerate(rv["ops"]):
                            set_ty(fld[(d["local"], i)], o)
                            out.append({"k": "assign", "dst": {"local": fld[(d["local"], i)], "proj": []}, "rv": {"use": o}, "span": st.get("span", ""), "sroa": True})
                        continue
                    pl = rv["use"].get("move") or rv["use"].get("copy")
                    key = "move" if "move" in rv["use"] else "copy"
                    for i in range(arity[d["local"]]):
                        t0 = dict(body["locals"][fld[(pl["local"], i)]])
                        t0["sroa_of"] = [d["local"], i]
                        body["locals"][fld[(d["local"], i)]] = t0
                        out.append({"k": "assign", "dst": {"local": fld[(d["local"], i)], "proj": []},
                                    "rv": {"use": {key: {"local": fld[(pl["local"], i)], "proj": []}}}, "span": st.get("span", ""), "sroa": True})
                    continue
                if "use" in rv:
                    pl = rv["use"].get("move") or rv["use"].get("copy")
                    if pl and pl["local"] in cand and pl["proj"]:
                        i = pl["proj"][0]["field"]
                        pl["local"] = fld[(pl["local"], i)]
                        pl["proj"] = pl["proj"][1:]
            out.append(st)
        blk["stmts"] = out
        t = blk["term"]
        for o in [t.get("on"), t.get("cond")] + list(t.get("args", [])):
            if isinstance(o, dict):
                pl = o.get("move") or o.get("copy")
                if pl and pl["local"] in cand and pl["proj"]:
                    i = pl["proj"][0]["field"]
                    pl["local"] = fld[(pl["local"], i)]
                    pl["proj"] = pl["proj"][1:]
    return len(cand)


def inline_call(caller, bi, callee):
    """splice `callee` (raw body dict) into `caller` at the call terminating block bi (in place)"""
    blk = caller["blocks"][bi]
    t = blk["term"]
    L0 = len(caller["locals"])
    B0 = len(caller["blocks"])
    P0 = len(caller.get("promoted", []))
    U = t.get("unwind")
    span = t.get("span", caller["span"])
    for l in callee["locals"]:
        caller["locals"].append(copy.deepcopy(l))
    for p in callee.get("promoted", []):
        q = copy.deepcopy(p)
        if "idx" in q:
            q["idx"] = q["idx"] + P0
        caller.setdefault("promoted", []).append(q)
    # argument passing
    for k, a in enumerate(t["args"]):
        blk["stmts"].append({"k": "assign", "dst": {"local": L0 + 1 + k, "proj": []}, "rv": {"use": copy.deepcopy(a)}, "span": span,
                             "inlined_arg": True})
    dst, target = t["dst"], t["target"]
    # constant arguments: uses of a never-reassigned parameter are replaced by the constant itself (constant propagation), so that
    # `try_lock(0)` reads like the `compare_exchange(0, ..)` it was before the helper existed
    const_params = {}
    for k, a in enumerate(t["args"]):
        if "const" in a:
            pl = 1 + k
            reassigned = any(st["k"] == "assign" and st["dst"]["local"] == pl for cb in callee["blocks"] for st in cb["stmts"]) or \
                any(cb["term"]["k"] == "call" and cb["term"].get("dst") and cb["term"]["dst"]["local"] == pl for cb in callee["blocks"])
            taken = _address_taken(callee, pl)
            if not reassigned and not taken:
                const_params[L0 + pl] = a
    blk["term"] = {"k": "goto", "target": B0, "span": span, "inlined_call": callee["id"]}
    in_cleanup = blk["cleanup"]
    # closures passed to a generic helper: `helper(|| user(..))` calls `f()` on a type parameter inside the helper; once the helper is
    # inlined the closure that runs is known, so the call is devirtualised to that closure's body
    closure_params = {}
    fnitem_params = {}
    for k, a in enumerate(t["args"]):
        pl = a.get("move") or a.get("copy")
        if pl and not pl["proj"]:
            head = caller["locals"][pl["local"]].get("head", "") if pl["local"] < L0 else ""
            if head.startswith("closure:"):
                closure_params[L0 + 1 + k] = head[len("closure:"):]
        elif isinstance(a.get("fn"), dict):
            fnitem_params[L0 + 1 + k] = a["fn"]          # a function item passed where a closure is expected (`unwrap_or_else(Shared::null)`)
    for cb in callee["blocks"]:
        nb = _shift(cb, L0, B0, P0)
        if const_params:
            _subst_consts(nb, const_params)
        if closure_params and nb["term"]["k"] == "call" and (nb["term"].get("callee") or {}).get("kind") == "param_trait_method" \
                and (nb["term"]["callee"].get("trait") or "").endswith(("ops::FnOnce", "ops::FnMut", "ops::Fn")) and nb["term"]["args"]:
            a0 = nb["term"]["args"][0].get("move") or nb["term"]["args"][0].get("copy")
            src = a0["local"] if a0 and not a0["proj"] else None
            hops = 0
            while src is not None and src not in closure_params and hops < 6:
                hops += 1
                nxt = None
                for st in nb["stmts"]:
                    if st["k"] == "assign" and st["dst"]["local"] == src and not st["dst"]["proj"]:
                        rv = st["rv"]
                        pl2 = (rv.get("use") or {}).get("move") or (rv.get("use") or {}).get("copy") or rv.get("ref")
                        if pl2 and not [e for e in pl2["proj"] if e != "deref"]:
                            nxt = pl2["local"]
                src = nxt
            if src in closure_params:
                cid = closure_params[src]
                old = nb["term"]["callee"]
                nb["term"]["callee"] = {"def": cid, "resolved": cid, "path": cid, "crate": "flurry", "name": "{closure}", "substs": [],
                                        "kind": "local", "devirtualized_from": old.get("path")}
        if fnitem_params and nb["term"]["k"] == "call" and (nb["term"].get("callee") or {}).get("kind") == "param_trait_method" \
                and (nb["term"]["callee"].get("trait") or "").endswith(("ops::FnOnce", "ops::FnMut", "ops::Fn")) and len(nb["term"]["args"]) == 2:
            a0 = nb["term"]["args"][0].get("move") or nb["term"]["args"][0].get("copy")
            src = a0["local"] if a0 and not a0["proj"] else None
            fn_direct = nb["term"]["args"][0].get("fn") if isinstance(nb["term"]["args"][0].get("fn"), dict) else None
            hops = 0
            while src is not None and src not in fnitem_params and hops < 6 and fn_direct is None:
                hops += 1
                nxt = None
                for st in nb["stmts"]:
                    if st["k"] == "assign" and st["dst"]["local"] == src and not st["dst"]["proj"]:
                        rv = st["rv"]
                        if isinstance((rv.get("use") or {}).get("fn"), dict):
                            fn_direct = rv["use"]["fn"]          # the constant argument was propagated into the body
                        pl2 = (rv.get("use") or {}).get("move") or (rv.get("use") or {}).get("copy") or rv.get("ref")
                        if pl2 and not [e for e in pl2["proj"] if e != "deref"]:
                            nxt = pl2["local"]
                src = nxt
            if fn_direct is not None:
                fnitem_params = dict(fnitem_params)
                fnitem_params["direct"] = fn_direct
                src = "direct"
            tup = nb["term"]["args"][1].get("move") or nb["term"]["args"][1].get("copy")
            unit = (tup is not None and not tup["proj"] and (
                (callee["locals"][tup["local"] - L0].get("s") if 0 <= tup["local"] - L0 < len(callee["locals"]) else None) == "()")) or \
                (tup is None and nb["term"]["args"][1].get("ty") == "()")
            if src in fnitem_params and unit:
                nb["term"]["callee"] = dict(fnitem_params[src], devirtualized_fn_item=True)
                nb["term"]["args"] = []
        if in_cleanup:
            nb["cleanup"] = True
        ct = nb["term"]
        k = ct["k"]
        if k == "return":
            nb["stmts"].append({"k": "assign", "dst": copy.deepcopy(dst), "rv": {"use": {"move": {"local": L0, "proj": []}}},
                                "span": ct.get("span", span), "inlined_ret": True})
            nb["term"] = {"k": "goto", "target": target, "span": ct.get("span", span)} if target is not None else \
                {"k": "unreachable", "span": ct.get("span", span)}
        elif k == "resume":
            nb["term"] = {"k": "goto", "target": U, "span": ct.get("span", span)} if isinstance(U, int) else ct
        elif k in ("call", "drop", "assert"):
            if ct.get("unwind") == "continue":
                ct["unwind"] = U if U is not None else "continue"
        caller["blocks"].append(nb)


STD_VARIANTS = {"std::option::Option": ["None", "Some"], "core::option::Option": ["None", "Some"],
                "std::result::Result": ["Ok", "Err"], "core::result::Result": ["Ok", "Err"],
                "std::ops::ControlFlow": ["Continue", "Break"], "core::ops::ControlFlow": ["Continue", "Break"]}


def thread_known_returns(body, adts):
    """jump threading (tail duplication) after inlining: a block that ends by giving a local a KNOWN value (a constant, or an enum
    variant) and then runs, through straight-line blocks that do not redefine it (plain gotos and drops; the local may be copied around
    and its discriminant read), into a switch on it is sent through private copies of those blocks straight to the switch target for
    that value.  The helper `fn ok(..) -> bool { .. if a { false } else { true } }` called as `if ok(..) { X }` thereby becomes the
    branch structure it was before it was extracted, and the path-insensitive dominance rules see it.  Duplicating straight-line code
    is semantics-preserving."""
    blocks = body["blocks"]

    def variant_index(adt, name):
        v = STD_VARIANTS.get(adt)
        if v is None and adt in adts:
            v = [x["name"] for x in adts[adt]["variants"]]
        return v.index(name) if v and name in v else None

    def succs(blk):
        t = blk["term"]
        k = t["k"]
        out = []
        if k == "goto":
            out.append(t["target"])
        elif k == "switch":
            out += [x[1] for x in t["targets"]] + [t["otherwise"]]
        elif k in ("drop", "assert", "call"):
            if t.get("target") is not None:
                out.append(t["target"])
            if isinstance(t.get("unwind"), int):
                out.append(t["unwind"])
        elif k == "other":
            out += t.get("succ", [])
        return out
    preds = {}
    for bi, blk in enumerate(blocks):
        for sx in succs(blk):
            preds.setdefault(sx, set()).add(bi)

    def last_const_in(stmts, f):
        """('const', v) / ('unknown',) / None (not assigned) for the last whole assignment to f in stmts"""
        for st in reversed(stmts):
            if st["k"] == "assign" and st["dst"]["local"] == f:
                rv = st["rv"]
                if not st["dst"]["proj"] and "use" in rv and "const" in rv["use"] and "int" in rv["use"]:
                    return ("const", rv["use"]["int"])
                return ("unknown",)
        return None

    def const_at_end(bi, f):
        """value of the flag f at the end of block bi when every reaching definition is the same constant (drop flags), else None"""
        vals = set()
        seen_b = set()
        stack = [bi]
        while stack:
            x = stack.pop()
            if x in seen_b:
                continue
            seen_b.add(x)
            if len(seen_b) > 400:
                return None
            r = last_const_in(blocks[x]["stmts"], f)
            t = blocks[x]["term"]
            if t["k"] == "call" and t.get("dst") and t["dst"]["local"] == f:
                return None
            if r is None:
                ps = preds.get(x, ())
                if not ps:
                    return None      # reaches the entry undefined
                stack.extend(ps)
            elif r[0] == "const":
                vals.add(r[1])
            else:
                return None
        return next(iter(vals)) if len(vals) == 1 else None
    changed = 0
    def _thread_one(pi, P, known):
        x, val = known
        alias, discr = {x}, set()
        chain = []          # [(stmts, term or None)]
        cur = P["term"]["target"]
        dest = None
        seen = {pi}
        nst = 0
        while cur is not None and len(chain) < 16 and cur not in seen:
            seen.add(cur)
            blk = blocks[cur]
            if blk["cleanup"] != P["cleanup"]:
                break
            ok = True
            for st in blk["stmts"]:
                if st["k"] == "assign":
                    d = st["dst"]["local"]
                    rv = st["rv"]
                    if not st["dst"]["proj"] and "use" in rv:
                        pl = rv["use"].get("move") or rv["use"].get("copy")
                        if pl and not pl["proj"] and pl["local"] in alias:
                            alias.add(d)
                            continue
                        if pl and not pl["proj"] and pl["local"] in discr:
                            discr.add(d)
                            continue
                    if not st["dst"]["proj"] and "discr" in rv and not rv["discr"]["proj"] and rv["discr"]["local"] in alias and val[0] == "variant":
                        discr.add(d)
                        continue
                    if d in alias or d in discr:
                        ok = False
                        break
            nst += len(blk["stmts"])
            if not ok or nst > 120:
                break
            t = blk["term"]
            if t["k"] == "goto":
                chain.append((blk["stmts"], None))
                cur = t["target"]
                continue
            if t["k"] == "drop" and not (t["place"]["local"] in alias or t["place"]["local"] in discr):
                chain.append((blk["stmts"], t))
                cur = t["target"]
                continue
            if t["k"] == "call" and (t.get("callee") or {}).get("def", "").endswith("mem::drop") and t.get("target") is not None \
                    and not (t.get("dst") and t["dst"]["local"] in (alias | discr)) \
                    and not any((a.get("move") or a.get("copy") or {}).get("local") in (alias | discr) for a in t.get("args", [])):
                # `drop(guard)` between the value and its test (`let r = f(); drop(lock); if r { .. }`)
                chain.append((blk["stmts"], t))
                cur = t["target"]
                continue
            if t["k"] == "switch":
                pl = t["on"].get("move") or t["on"].get("copy")
                if pl and not pl["proj"]:
                    k = None
                    if pl["local"] in alias and val[0] == "int":
                        k = val[1]
                    elif pl["local"] in discr and val[0] == "variant":
                        k = val[1]
                    if k is not None:
                        tg = {int(v): b for v, b in t["targets"]}
                        dest = tg.get(int(k), t["otherwise"])
                        chain.append((blk["stmts"], None))
                        break
                    # a switch on another flag whose value on this path is a known constant (drop flags): follow the one feasible edge
                    f = pl["local"]
                    fv = None
                    path_stmts = [st for stmts_, _ in chain for st in stmts_] + list(blk["stmts"])
                    r = last_const_in(path_stmts, f)
                    if r is None:
                        r2 = last_const_in(P["stmts"], f)
                        if r2 is None:
                            ps = preds.get(pi, ())
                            vs = {const_at_end(q, f) for q in ps} if ps else {None}
                            fv = next(iter(vs)) if len(vs) == 1 else None
                        elif r2[0] == "const":
                            fv = r2[1]
                    elif r[0] == "const":
                        fv = r[1]
                    if fv is not None:
                        tg = {int(v): b for v, b in t["targets"]}
                        chain.append((blk["stmts"], None))
                        cur = tg.get(int(fv), t["otherwise"])
                        continue
            break
        if dest is None:
            return False
        # build the private copies
        first = len(blocks)
        for i, (stmts, term) in enumerate(chain):
            nxt = first + i + 1 if i + 1 < len(chain) else dest
            if term is None:
                nt = {"k": "goto", "target": nxt, "span": P["term"].get("span", "")}
            else:
                nt = copy.deepcopy(term)
                nt["target"] = nxt
            blocks.append({"cleanup": P["cleanup"], "stmts": copy.deepcopy(stmts), "term": nt, "threaded": True})
        P["term"]["target"] = first
        return True

    for pi in range(len(blocks)):
        P = blocks[pi]
        if P["term"]["k"] not in ("goto", "drop"):
            continue
        # locals given a known value in P (last whole assignment, not redefined afterwards)
        cands = []
        redefined = set()
        for st in reversed(P["stmts"]):
            if st["k"] != "assign":
                continue
            d = st["dst"]["local"]
            if d in redefined:
                continue
            redefined.add(d)
            if st["dst"]["proj"]:
                continue
            rv = st["rv"]
            if "use" in rv and "const" in rv["use"] and "int" in rv["use"]:
                cands.append((d, ("int", rv["use"]["int"])))
            elif "agg" in rv and "adt" in rv["agg"]:
                vi = variant_index(rv["agg"]["adt"], rv["agg"]["variant"])
                if vi is not None:
                    cands.append((d, ("variant", vi)))
        for known in cands:
            if _thread_one(pi, P, known):
                changed += 1
                break
    return changed



def _call_targets(body, ids):
    out = []
    for bi, blk in enumerate(body["blocks"]):
        t = blk["term"]
        if t["k"] == "call" and t.get("callee"):
            r = t["callee"].get("resolved") or t["callee"].get("def")
            if r in ids:
                out.append((bi, r))
    return out


def _mentions(body, ids):
    """ids referenced other than as a direct callee (function items passed as values): such helpers are not inlined"""
    found = set()

    def walk(o):
        if isinstance(o, dict):
            for k, v in o.items():
                if k == "callee":
                    continue
                if k in ("fn", "fn_def", "closure") and isinstance(v, str) and v in ids:
                    found.add(v)
                walk(v)
        elif isinstance(o, list):
            for x in o:
                walk(x)
        elif isinstance(o, str) and o in ids:
            found.add(o)
    walk(body["blocks"])
    return found


FN_TRAITS = ("ops::FnOnce", "ops::FnMut", "ops::Fn")


def splice_std_models(raw):
    """closure-taking std combinators (`Option::map_or`, `is_some_and`, `and_then`, `bool::then`, ...) at call sites that the pinned tree
    does not have are replaced by their reference implementation (vf/std_models.json, compiled from /verif/stdmodels by the same
    driver) -- which is then inlined like any other new helper, its closure argument devirtualised.  `x.is_some_and(|v| c(v))` is thereby
    analysed as `match x { Some(v) => c(v), None => false }`.  Call sites the pinned tree already has (counted per function in
    known_items.json) keep their call form, so that nothing changes for the tree the rules were written against."""
    try:
        with open(os.path.join(HERE, "std_models.json")) as f:
            models = json.load(f)
        with open(os.path.join(HERE, "known_items.json")) as f:
            pinned = json.load(f).get("std_calls", {})
    except Exception:
        return set()
    by_id = {b["id"]: b for b in raw["bodies"]}

    def root_of(b):
        while b.get("kind") == "Closure" and b.get("parent") in by_id:
            b = by_id[b["parent"]]
        return strip_generics(b["id"])
    sites = {}
    for b in raw["bodies"]:
        r = root_of(b)
        for blk in b["blocks"]:
            t = blk["term"]
            if t["k"] == "call" and t.get("callee") and t["callee"].get("def") in models:
                sites.setdefault((r, t["callee"]["def"]), []).append(t)
    used = set()
    for (r, d), ts in sites.items():
        if len(ts) <= pinned.get(r, {}).get(d, 0):
            continue
        mid = "stdmodel::" + d
        for t in ts:
            t["callee"] = dict(t["callee"], resolved=mid, std_model=True)
        used.add(d)
    for d in used:
        m = copy.deepcopy(models[d])
        m["id"] = "stdmodel::" + d
        m["exported"] = False
        m["reachable"] = False
        m["impl"] = None
        m["std_model"] = True
        raw["bodies"].append(m)
    return {"stdmodel::" + d for d in used}


def direct_local_closures(raw):
    """closures that are only ever CALLED, directly, by the function that creates them (`let append = |..| {..}; append(a, b);`): local
    helpers spelt as closures.  Their call sites are rewritten into plain calls of the closure body -- the environment reference as first
    argument, the argument tuple spread into its fields -- so that they are inlined like any other new helper.  A closure that is passed
    to anything (an iterator adaptor, a callback parameter) is not touched."""
    by_id = {b["id"]: b for b in raw["bodies"]}
    out = set()
    dumps = {}
    for P in raw["bodies"]:
        made = {}
        for blk in P["blocks"]:
            for st in blk["stmts"]:
                if st["k"] == "assign" and "agg" in st["rv"] and "closure" in st["rv"]["agg"] and not st["dst"]["proj"]:
                    cid = st["rv"]["agg"]["closure"]
                    if cid in by_id and by_id[cid].get("parent") == P["id"]:
                        made.setdefault(cid, []).append(st["dst"]["local"])
        for cid, locs in made.items():
            if len(set(locs)) != 1:
                continue          # (the creating statement may exist in several copies after tail duplication)
            cl = locs[0]
            refs, ok, sites = set(), True, []
            # one pass to find references to the closure local, a second to classify every use
            for blk in P["blocks"]:
                for st in blk["stmts"]:
                    if st["k"] == "assign" and "ref" in st["rv"] and st["rv"]["ref"]["local"] == cl and not st["rv"]["ref"]["proj"] and not st["dst"]["proj"]:
                        refs.add(st["dst"]["local"])
            holders = refs | {cl}
            # ... and single-definition copies / moves of the closure (the parameter of an inlined combinator it was handed to)
            grew = True
            while grew:
                grew = False
                for blk in P["blocks"]:
                    for st in blk["stmts"]:
                        if st["k"] == "assign" and not st["dst"]["proj"] and st["dst"]["local"] not in holders and "use" in st["rv"]:
                            pl0 = st["rv"]["use"].get("move") or st["rv"]["use"].get("copy")
                            if pl0 and not pl0["proj"] and pl0["local"] in holders and pl0["local"] not in refs:
                                nd = len({json.dumps(s2["rv"], sort_keys=True) for b2 in P["blocks"] for s2 in b2["stmts"]
                                          if s2["k"] == "assign" and not s2["dst"]["proj"] and s2["dst"]["local"] == st["dst"]["local"]})
                                if nd == 1:       # one definition (possibly in several copies after tail duplication)
                                    holders.add(st["dst"]["local"])
                                    grew = True

            def uses(o, acc):
                if isinstance(o, dict):
                    if "local" in o and isinstance(o["local"], int) and o["local"] in holders:
                        acc.append(o)
                    for k, v in o.items():
                        uses(v, acc)
                elif isinstance(o, list):
                    for x in o:
                        uses(x, acc)
            for bi, blk in enumerate(P["blocks"]):
                for st in blk["stmts"]:
                    if st["k"] in ("storage_live", "storage_dead"):
                        continue
                    if st["k"] == "assign" and not st["dst"]["proj"] and st["dst"]["local"] in holders:
                        acc = []
                        uses(st["rv"], acc)
                        if st["dst"]["local"] in refs and "ref" in st["rv"] and st["rv"]["ref"]["local"] == cl:
                            continue
                        if st["dst"]["local"] == cl and "agg" in st["rv"]:
                            continue
                        if "use" in st["rv"] and len(acc) == 1 and not acc[0].get("proj"):
                            continue          # a whole copy / move between holders
                        ok = False
                        continue
                    acc = []
                    uses(st, acc)
                    if acc:
                        ok = False
                t = blk["term"]
                acc = []
                uses(t, acc)
                if not acc:
                    continue
                if t["k"] == "drop" and t["place"]["local"] in holders:
                    continue
                cal = t.get("callee") or {}
                a0 = (t.get("args") or [{}])[0]
                p0 = a0.get("move") or a0.get("copy") if isinstance(a0, dict) else None
                direct_form = (cal.get("trait") or "").endswith(FN_TRAITS) and (cal.get("self_ty") or {}).get("head") == "closure:" + cid
                devirt_form = bool(cal.get("devirtualized_from")) and cal.get("def") == cid
                if t["k"] == "call" and (direct_form or devirt_form) and len(t.get("args", [])) == 2 and p0 and not p0["proj"] \
                        and p0["local"] in holders and len(acc) == 1:
                    sites.append((bi, t))
                else:
                    ok = False
            # nobody else knows the closure
            for B in raw["bodies"]:
                if not ok:
                    break
                if B is P or B["id"] == cid:
                    continue
                if B["id"] not in dumps:
                    dumps[B["id"]] = json.dumps(B["blocks"])
                if cid in dumps[B["id"]]:
                    ok = False
            if not ok or not sites:
                continue
            C = by_id[cid]
            n = C["args"] - 1
            good = True
            for bi, t in sites:
                tup = t["args"][1].get("move") or t["args"][1].get("copy")
                if not tup or tup["proj"]:
                    good = False
            if not good:
                continue
            for bi, t in sites:
                tup = (t["args"][1].get("move") or t["args"][1].get("copy"))["local"]
                t["args"] = [t["args"][0]] + [{"move": {"local": tup, "proj": [{"field": k, "name": str(k), "of": "tuple"}]}} for k in range(n)]
                t["callee"] = {"def": cid, "resolved": cid, "path": cid, "crate": "flurry", "name": "{closure}", "substs": [], "kind": "local",
                               "direct_closure_call": True}
            out.add(cid)
    return out


def resolve_closure_envs(body):
    """after a directly called closure was inlined, its reads of captured variables -- `(*env).k` through the environment reference, or
    `env.k` for a by-value environment -- are rewritten to the local that was captured (operand k of the closure aggregate), so that the
    inlined body talks about the same `tab`, `idx`, `guard` as the function around it"""
    made = {}
    for blk in body["blocks"]:
        for st in blk["stmts"]:
            if st["k"] == "assign" and "agg" in st["rv"] and "closure" in st["rv"]["agg"] and not st["dst"]["proj"]:
                caps = []
                for o in st["rv"]["ops"]:
                    pl = o.get("move") or o.get("copy")
                    caps.append(pl["local"] if pl and not pl["proj"] else None)
                made.setdefault(st["dst"]["local"], []).append(caps)
    made = {k: v[0] for k, v in made.items() if all(x == v[0] for x in v)}
    if not made:
        return 0
    ndefs = {}
    seen_stmt = set()
    for blk in body["blocks"]:
        for st in blk["stmts"]:
            if st["k"] == "assign" and not st["dst"]["proj"]:
                key = (st["dst"]["local"], json.dumps(st["rv"], sort_keys=True))
                if key in seen_stmt:
                    continue
                seen_stmt.add(key)
                ndefs[st["dst"]["local"]] = ndefs.get(st["dst"]["local"], 0) + 1
        t = blk["term"]
        if t["k"] == "call" and t.get("dst") and not t["dst"]["proj"]:
            ndefs[t["dst"]["local"]] = ndefs.get(t["dst"]["local"], 0) + 1
    val, ref = {c: c for c in made}, {}
    grew = True
    while grew:
        grew = False
        for blk in body["blocks"]:
            for st in blk["stmts"]:
                if st["k"] != "assign" or st["dst"]["proj"] or ndefs.get(st["dst"]["local"]) != 1:
                    continue
                d, rv = st["dst"]["local"], st["rv"]
                if "ref" in rv and not rv["ref"]["proj"] and rv["ref"]["local"] in val and d not in ref:
                    ref[d] = val[rv["ref"]["local"]]
                    grew = True
                elif "ref" in rv and rv["ref"]["proj"] == ["deref"] and rv["ref"]["local"] in ref and d not in ref:
                    ref[d] = ref[rv["ref"]["local"]]          # reborrow
                    grew = True
                elif "use" in rv:
                    pl = rv["use"].get("move") or rv["use"].get("copy")
                    if pl and not pl["proj"]:
                        if pl["local"] in val and d not in val:
                            val[d] = val[pl["local"]]
                            grew = True
                        elif pl["local"] in ref and d not in ref:
                            ref[d] = ref[pl["local"]]
                            grew = True
    n = 0

    def fix(o):
        nonlocal n
        if isinstance(o, dict):
            if "local" in o and "proj" in o and isinstance(o["proj"], list):
                l, pr = o["local"], o["proj"]
                k = None
                if l in ref and len(pr) >= 2 and pr[0] == "deref" and isinstance(pr[1], dict) and "field" in pr[1] and str(pr[1].get("of", "")).startswith("closure:"):
                    k, rest, caps = pr[1]["field"], pr[2:], made[ref[l]]
                elif l in val and l not in made and len(pr) >= 1 and isinstance(pr[0], dict) and "field" in pr[0] and str(pr[0].get("of", "")).startswith("closure:"):
                    k, rest, caps = pr[0]["field"], pr[1:], made[val[l]]
                if k is not None and k < len(caps) and caps[k] is not None:
                    o["local"], o["proj"] = caps[k], rest
                    n += 1
            for v in o.values():
                fix(v)
        elif isinstance(o, list):
            for x in o:
                fix(x)
    fix(body["blocks"])
    return n


def inline_new_helpers(raw, log=None):
    """rewrite raw['bodies'] in place; returns the list of helper ids that were inlined away.  Two passes: helpers, std combinator models
    and directly called local closures first; then the closures that the first pass turned into direct calls (the closure argument of an
    expanded combinator)."""
    gone = set(_inline_pass(raw, True))
    # std combinators are counted, and expanded, in the functions the helpers ended up in (a helper that carries the pinned
    # `map(..).unwrap_or(true)` of replace_node with it does not make that call site a new one)
    try:
        raw["std_models_used"] = sorted(splice_std_models(raw))
    except Exception:
        raw["std_models_used"] = []
    for _ in range(2):
        if raw.get("std_models_used") or any((blk["term"].get("callee") or {}).get("devirtualized_from") for b in raw["bodies"] for blk in b["blocks"]):
            gone |= set(_inline_pass(raw, False))
    gone = sorted(gone)
    raw["inlined_helpers"] = gone
    if log is not None:
        log(gone)
    return gone


def resolve_unique_trait_impls(raw, known):
    """a call of a method of a crate trait that the pinned tree does not have (`trait BinEntryExt`), made on `Self` or a type parameter,
    is resolved to the method's only implementation in the crate when there is exactly one"""
    def is_new_trait(t):
        if not t or not t.startswith(CRATE_MODS):
            return False
        return not any(("as %s" % t) in k or k.startswith(t + "::") for k in known)
    impls = {}
    for b in raw["bodies"]:
        imp = b.get("impl") or {}
        if imp.get("trait") and is_new_trait(imp["trait"]):
            impls.setdefault((imp["trait"], b.get("name")), []).append(b["id"])
    n = 0
    for b in raw["bodies"]:
        for blk in b["blocks"]:
            t = blk["term"]
            cal = t.get("callee") if t["k"] == "call" else None
            if not cal or cal.get("resolved") or not is_new_trait(cal.get("trait")):
                continue
            c = impls.get((cal["trait"], cal.get("name")), [])
            if len(c) == 1:
                cal["resolved"] = c[0]
                cal["resolved_unique_impl"] = True
                n += 1
    return n


def _inline_pass(raw, first):
    known = known_functions()
    if first:
        try:
            resolve_unique_trait_impls(raw, known)
        except Exception:
            pass
        # `matches!(s, 0 | WAITER)` and friends: a constant flag set on each arm of a match and tested right after the join is threaded
        # to the branch structure it stands for, in every body
        for b in raw["bodies"]:
            try:
                sroa(b)          # `(self.index, n) = (frame.index, frame.length)`: a tuple built only to be taken apart
                for _ in range(2):
                    if not thread_known_returns(b, raw.get("adts", {})):
                        break
            except Exception:
                pass
    bodies = raw["bodies"]
    by_id = {b["id"]: b for b in bodies}
    bodies = raw["bodies"]
    by_id = {b["id"]: b for b in bodies}
    try:
        direct = direct_local_closures(raw)
    except Exception:
        direct = set()
    alias = reidentify(raw, known)
    raw["sid_alias"] = alias
    if first:
        try:
            fused = fuse_splits(raw, known, alias)
        except Exception:
            fused = []
        if fused:
            raw["fused_splits"] = fused
            bodies = raw["bodies"]
            by_id = {b["id"]: b for b in bodies}
    cand = {}
    for b in bodies:
        if b["id"] in direct and not any(blk["term"]["k"] == "other" for blk in b["blocks"]):
            cand[b["id"]] = b
            continue
        if b["kind"] == "Closure" or b.get("exported") or b.get("reachable"):
            continue
        if (b.get("impl") or {}).get("trait"):
            # trait methods are called through the trait; those of a type the pinned tree does not have (a private iterator or wrapper
            # introduced next to the existing code) are helpers like any other where the call resolves statically -- except Drop, which
            # runs implicitly
            imp = b["impl"]
            new_trait = str(imp.get("trait", "")).startswith(CRATE_MODS) and not any(
                ("as %s" % imp["trait"]) in k or k.startswith(imp["trait"] + "::") for k in known)
            if imp.get("trait") in ("std::ops::Drop", "core::ops::Drop"):
                continue
            if not new_trait and (imp.get("self_head") in KNOWN_ADTS or not imp.get("self_head", "").startswith(CRATE_MODS)):
                continue
        if strip_generics(b["id"]) in known or strip_generics(b["id"]) in alias:
            continue
        if any(blk["term"]["k"] == "other" for blk in b["blocks"]):
            continue
        if b["locals"] and "MutexGuard" in b["locals"][0].get("s", ""):
            continue      # lock wrappers are summarised as acquires (analysis.lock_wrappers); inlining would only hide the guard type
        cand[b["id"]] = b
    if not cand:
        return []
    ids = set(cand)
    # drop helpers used as values, and recursive ones (cycle among candidates)
    for b in bodies:
        ids -= (_mentions(b, ids) - direct)
    edges = {i: {r for _, r in _call_targets(cand[i], ids)} for i in ids}

    def reaches_self(i):
        seen, stack = set(), list(edges.get(i, ()))
        while stack:
            x = stack.pop()
            if x == i:
                return True
            if x in seen:
                continue
            seen.add(x)
            stack.extend(edges.get(x, ()))
        return False
    ids = {i for i in ids if not reaches_self(i)}
    if not ids:
        return []
    # inline bottom-up: repeat until no call to a helper remains (helpers calling helpers are expanded first)
    for _ in range(MAX_ROUNDS):
        progress = False
        order = sorted(ids, key=lambda i: len(edges.get(i, ()) & ids))
        for b in [by_id[i] for i in order] + [x for x in bodies if x["id"] not in ids]:
            sites = _call_targets(b, ids)
            for bi, r in sites:
                callee = by_id[r]
                if _call_targets(callee, ids):
                    continue          # expand the callee first (next round)
                if len(b["blocks"]) + len(callee["blocks"]) > MAX_BLOCKS:
                    continue
                b.setdefault("first_inlined_local", len(b["locals"]))
                inline_call(b, bi, callee)
                b.setdefault("inlined", []).append(r)
                progress = True
        if not progress:
            break
    for b in bodies:
        if b.get("inlined"):
            try:
                if any(r in direct for r in b["inlined"]):
                    resolve_closure_envs(b)
                sroa(b)
            except Exception:      # the transformation is an optimisation of precision only
                pass
            for _ in range(3):
                if not propagate_const_temps(b, b.get("first_inlined_local", len(b["locals"]))):
                    break
            for _ in range(4):
                if not thread_known_returns(b, raw.get("adts", {})):
                    break
    # helpers that are no longer called disappear as bodies of their own
    still = set()
    for b in bodies:
        if b["id"] in ids:
            continue
        still |= {r for _, r in _call_targets(b, ids)}
    # (only what was actually inlined somewhere: a trait method of a new type that nobody in the crate calls statically -- a serde
    # visitor, say -- is an entry point of its own and stays)
    was_inlined = {r for b in bodies for r in b.get("inlined", [])}
    gone = sorted((ids - still) & was_inlined)
    raw["bodies"] = [b for b in bodies if b["id"] not in set(gone)]
    raw["inlined_helpers"] = sorted(set(raw.get("inlined_helpers", [])) | set(gone))
    return gone
