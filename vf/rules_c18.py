"""C18 -- a panicking callback leaves the map consistent and unlocked.
U1 RAII guard dropped on the unwind path of every callback call / U2 no user code inside the manual root-lock region /
U3 predicates of retain* (and iterator consumers) run under no lock / U4 the callback precedes every mutation of its critical section."""
from .analysis import flow, reach, after, Point, held_regions_at, regions
from .anchors import callee_str, is_blocking_extern
from .callgraph import callgraph
from .facts import op_local, op_root, strip_generics
from .protocol import validated_regions, user_closure_call, user_code_call, bin_lock_region, mutations

PROP = "C18"
LEVEL = "other"
EXPLANATION = (
    "MIR keeps the unwind edges, so the rule reads the panic path itself. U1: for every call of a caller-supplied closure made while a bin "
    "lock is held, the call's unwind target leads, on every path to `resume`, through the Drop of that MutexGuard (drop flags are evaluated "
    "by reaching definitions at the call) -- the lock is held through RAII, never forgotten or locked raw. U2: between lock_root and "
    "unlock_root (a lock released by an explicit store, which unwinding would skip) no user code (trait method on a type parameter, directly "
    "or through callees) is called. U3: the predicates of retain / retain_force run where no lock region is open, and the iterator `next` "
    "paths take no lock (C12), so code consuming an iterator cannot strand a lock. U4: on no path from the lock acquisition to the callback "
    "is there a write to shared bin contents or a retire, so unwinding leaves the entry as found. Not decided: behaviour of later "
    "operations on concrete histories (follows from the lock being released and the bin untouched).")


def release_points(body):
    """points that release some parking_lot lock: Drop of a MutexGuard-typed place or mem::drop of one"""
    out = set()
    for b in range(len(body.blocks)):
        t = body.term(b)
        if t["k"] == "drop" and "MutexGuard" in t["ty"]["s"] and "ManuallyDrop" not in t["ty"]["s"]:
            out.add(body.term_point(b))
        elif t["k"] == "call":
            c = body.call_at(b)
            if callee_str(c).endswith("mem::drop") and c.args and op_root(c.args[0]) is not None:
                ts = body.ty(op_root(c.args[0]))["s"]
                if "MutexGuard" in ts and "ManuallyDrop" not in ts:
                    out.add(c.point)
    return out


def lock_may_be_held(body):
    """points at which some bin lock acquired in this body may still be held (type-based: independent of which local owns the guard)"""
    from .analysis import lock_calls
    rel = release_points(body)
    held = set()
    for lc in lock_calls(body):
        held |= reach(body, after(body, lc.point, label="ret"), avoid=rel)
    return held, rel


def cleanup_releases(body, call):
    """every cleanup path from the call's unwind target to resume passes a release point (drop flags resolved at the call)"""
    if not isinstance(call.unwind, int):
        return False, "callback call has no cleanup target (unwind=%s)" % (call.unwind,)
    rel = {p[0] for p in release_points(body)}
    fl = flow(body)
    seen = set()
    stack = [(call.unwind, False)]
    while stack:
        b, dropped = stack.pop()
        if (b, dropped) in seen:
            continue
        seen.add((b, dropped))
        t = body.term(b)
        k = t["k"]
        if k == "resume":
            if not dropped:
                return False, "a cleanup path reaches resume (bb%d) without dropping any lock guard" % b
            continue
        d = dropped or (b in rel)
        if k == "switch":
            l = op_local(t["on"])
            val = None
            if l is not None:
                vals = set()
                for pt, kind, data in fl.reaching_defs(l, call.point):
                    if kind == "assign" and "use" in data["rv"] and "int" in data["rv"]["use"]:
                        vals.add(data["rv"]["use"]["int"])
                    else:
                        vals.add(None)
                if len(vals) == 1 and None not in vals:
                    val = next(iter(vals))
            if val is not None:
                tgt = t["otherwise"]
                for v, tb in t["targets"]:
                    if int(v) == val:
                        tgt = tb
                stack.append((tgt, d))
                continue
        for s2 in body.succ(b):
            stack.append((s2, d))
    return True, "a lock guard is dropped on every cleanup path"


def cleanup_drops_guard(body, call, guard_local):
    """every cleanup path from the call's unwind target to resume drops guard_local (drop flags resolved at the call)"""
    if not isinstance(call.unwind, int):
        return False, "callback call has no cleanup target (unwind=%s)" % (call.unwind,)
    fl = flow(body)
    start = call.unwind
    seen = set()
    stack = [(start, False)]
    while stack:
        b, dropped = stack.pop()
        if (b, dropped) in seen:
            continue
        seen.add((b, dropped))
        t = body.term(b)
        k = t["k"]
        if k == "resume":
            if not dropped:
                return False, "cleanup path reaches resume at bb%d without dropping the lock guard" % b
            continue
        if k == "drop":
            gl = guard_local if isinstance(guard_local, (set, list, tuple)) else (guard_local,)
            d = dropped or (t["place"]["local"] in gl and not t["place"]["proj"])
            stack.append((t["target"], d))
            continue
        if k == "switch":
            l = op_local(t["on"])
            val = None
            if l is not None:
                ds = fl.reaching_defs(l, call.point)
                vals = set()
                for pt, kind, data in ds:
                    if kind == "assign" and "use" in data["rv"] and "int" in data["rv"]["use"]:
                        vals.add(data["rv"]["use"]["int"])
                    else:
                        vals.add(None)
                if len(vals) == 1 and None not in vals:
                    val = next(iter(vals))
            if val is not None:
                tgt = t["otherwise"]
                for v, tb in t["targets"]:
                    if int(v) == val:
                        tgt = tb
                stack.append((tgt, dropped))
            else:
                for s in body.succ(b):
                    stack.append((s, dropped))
            continue
        for s in body.succ(b):
            stack.append((s, dropped))
    return True, "guard dropped on every cleanup path"


def root_lock_fns(facts):
    """(acquire fns, release fns): bodies that CAS TreeBin.lock_state to WRITER / store 0 into it"""
    from .anchors import is_std_atomic, receiver_field
    from .affine import const_val
    acq, rel = [], []
    for b in facts.bodies:
        for c in b.calls:
            n = is_std_atomic(c)
            if n and ("node::TreeBin", "lock_state") in receiver_field(b, c, 0):
                if n == "compare_exchange" and len(c.args) > 2 and const_val(b, c.args[2]) == facts.const("WRITER") and const_val(b, c.args[1]) == 0:
                    acq.append(b)
                if n == "store" and const_val(b, c.args[1]) == 0:
                    rel.append(b)
    return acq, rel


def root_release_points(facts, body, rel_ids=None):
    """points of `body` that give the tree write lock back: calls of a release function (a body that stores 0 into TreeBin.lock_state),
    calls of a function that does nothing but that on every path, and the drop (scope end, `mem::drop`, or unwinding) of a value whose
    `Drop` impl is such a function -- an RAII handle around the write lock"""
    from .analysis import return_points
    cache = getattr(facts, "_root_release", None)
    if cache is None:
        if rel_ids is None:
            rel_ids = {b.id for b in root_lock_fns(facts)[1]}
        rel = set(rel_ids)
        grew = True
        while grew:
            grew = False
            for b in facts.bodies:
                if b.id in rel or b.kind == "Closure":
                    continue
                pts = {c.point for c in b.calls if c.resolved in rel and not b.is_cleanup(c.b)}
                if pts and not any(rp in reach(b, [Point(0, 0)], avoid=pts) for rp in return_points(b)):
                    rel.add(b.id)
                    grew = True
        drop_heads = set()
        for b in facts.bodies:
            if b.id in rel and b.impl and b.impl.get("trait") == "std::ops::Drop":
                drop_heads.add(b.impl["self_head"])
        cache = facts._root_release = (rel, drop_heads)
    rel, drop_heads = cache
    out = {c.point for c in body.calls if c.resolved in rel}
    if drop_heads:
        for c in body.calls:
            if callee_str(c).endswith("mem::drop") and c.args and op_root(c.args[0]) is not None and \
                    body.ty(op_root(c.args[0])).get("base") in drop_heads:
                out.add(c.point)
        for bi in range(len(body.blocks)):
            t = body.term(bi)
            if t["k"] == "drop" and (t.get("ty") or {}).get("base") in drop_heads:
                out.add(body.term_point(bi))
    return out


POISONING = ("sync::Mutex", "sync::RwLock", "sync::poison::mutex::Mutex", "sync::poison::rwlock::RwLock")


def poisoning_acquire(c):
    """std's poisoning lock primitives (their guards mark the lock poisoned when dropped during a panic)"""
    s = strip_generics(callee_str(c))
    if not (s.startswith("std::sync::") or s.startswith("std::sync::poison::")):
        return None
    for t in POISONING:
        for m in ("lock", "read", "write", "try_lock", "try_read", "try_write"):
            if s.endswith(t + "::" + m):
                return s
    return None


def rule_u6(ctx, facts):
    """the locks under which callbacks run do not remember a panic: every lock acquisition in the crate is a non-poisoning primitive
    (parking_lot / lock_api), or recovers the guard from a PoisonError.  A std::sync::Mutex whose LockResult is unwrap()ed turns ONE
    panicking callback into a panic of every later operation on that bin."""
    from .analysis import lock_calls
    n = 0
    for b in facts.bodies:
        fl = flow(b)
        for c in b.calls:
            if b.is_cleanup(c.b):
                continue
            pa = poisoning_acquire(c)
            if pa is None:
                continue
            n += 1
            dl = c.dst_local()
            bad = None
            if dl is not None:
                sinks = fl.flows_to(dl)
                for u in b.calls:
                    if u.point == c.point or not u.args or op_root(u.args[0]) not in sinks:
                        continue
                    us = strip_generics(callee_str(u))
                    if us.endswith("Result::unwrap") or us.endswith("Result::expect"):
                        bad = u
                        break
            ctx.inst("U6", b, "poisoning lock %s" % pa.rsplit("::", 2)[-2], c.span, bad is None,
                     "the PoisonError is not turned into a panic" if bad is None else
                     "%s poisons its lock when a holder panics (e.g. in a caller-supplied closure), and the result is %s at %s: after one panicking "
                     "callback every later operation that needs this lock panics" % (pa, strip_generics(callee_str(bad)).rsplit("::", 1)[-1], bad.span))
        for c in lock_calls(b):
            n += 1
            s = strip_generics(callee_str(c))
            tb = facts.by_id.get(c.resolved)
            ctx.inst("U6", b, "acquire at %s" % c.span.split(":", 1)[1], c.span, True,
                     "%s: %s" % (s, "crate-local wrapper (its body is judged where it acquires)" if tb is not None else "non-poisoning primitive"))
    return n


TLS_FNS = ("thread::LocalKey::<T>::with", "thread::LocalKey::<T>::try_with", "thread::LocalKey::<std::cell::Cell<T>>::set",
           "thread::LocalKey::<std::cell::Cell<T>>::replace", "thread::LocalKey::<std::cell::Cell<T>>::take",
           "thread::local::LocalKey::<T>::with", "thread::local::LocalKey::<T>::try_with")


def tls_access(c):
    s = callee_str(c)
    return ("LocalKey" in s and s.rsplit("::", 1)[-1] in ("with", "try_with", "set", "replace", "take", "with_borrow", "with_borrow_mut"))


def rule_u7(ctx, facts):
    """state bracketed around a callback: if per-thread (thread_local!) state is changed before code that runs a caller-supplied closure
    and put back after it by straight-line code, a panic in the closure skips the restore -- unless the unwind path restores it too
    (an RAII guard dropped in cleanup, or an explicit access there).  Later operations that consult the stale state then misbehave
    although the map itself is intact."""
    cg = callgraph(facts)
    runs_user = {}
    for b in facts.bodies:
        for bid in cg.reachable(b.id):
            bb = facts.by_id[bid]
            if any(user_closure_call(c) and not bb.is_cleanup(c.b) for c in bb.calls):
                runs_user[b.id] = bid
                break
    drop_types = {im["self"].split("<")[0] for im in facts.impls if (im.get("trait") or "").endswith("ops::Drop")}
    n = 0
    for b in facts.bodies:
        tls = [c for c in b.calls if tls_access(c) and not b.is_cleanup(c.b)]
        sites = [c for c in b.calls if not b.is_cleanup(c.b) and (user_closure_call(c) or (c.resolved in runs_user and c.resolved != b.id))]
        for x in sites:
            n += 1
            before = [t for t in tls if x.point in reach(b, after(b, t.point, label="ret"))]
            aft = reach(b, after(b, x.point, label="ret")) if tls else set()
            after_ = [t for t in tls if t.point in aft and t.point != x.point]
            if not before or not after_:
                if user_closure_call(x):
                    ctx.inst("U7", b, "thread-local state around the callback at %s" % x.span.split(":", 1)[1], x.span, True,
                             "no thread-local state is changed before and restored after this call")
                continue
            # what the unwind path from x does
            restored = False
            if isinstance(x.unwind, int):
                cl = reach(b, [Point(x.unwind, 0)], unwind=True)
                for t in b.calls:
                    if t.point in cl and tls_access(t):
                        restored = True
                for blk in {p[0] for p in cl}:
                    tm = b.term(blk)
                    if tm["k"] == "drop" and any(tm["ty"]["s"].split("<")[0].lstrip("&") == dt or tm["ty"].get("base") == dt for dt in drop_types):
                        restored = True
            ctx.inst("U7", b, "thread-local state around the callback at %s" % x.span.split(":", 1)[1], x.span, restored,
                     "the unwind path restores it (cleanup access or a guard with a Drop impl)" if restored else
                     "thread-local state is changed at %s before code that runs a caller-supplied closure and put back at %s only on the normal path: "
                     "if the closure panics the stale value stays and later operations of this thread that consult it misbehave"
                     % (before[0].span, after_[0].span))
    return n


def rule_u8(ctx, facts):
    """unwinding out of a caller-supplied closure has no effect on the map: on the cleanup path from the closure call to `resume` nothing
    is retired, freed or written to shared storage -- neither by a call nor by dropping a value whose `Drop` impl does so (a scope guard
    that retires the old value at scope end also retires it when the closure panics, while the value is still installed)"""
    from .anchors import anchors, is_shared_write
    an = anchors(facts)
    cg = callgraph(facts)

    def effectful(bid, _memo={}):
        key = (id(facts), bid)
        if key in _memo:
            return _memo[key]
        hit = None
        for rid in cg.reachable(bid):
            rb = facts.by_id.get(rid)
            if rb is None:
                continue
            for c in rb.calls:
                if an.is_retire(c) is not None or an.is_free(c) is not None or callee_str(c).endswith(("defer_retire", "Collector::retire")):
                    hit = "%s (%s at %s)" % (strip_generics(rid), callee_str(c).rsplit("::", 1)[-1], c.span)
                    break
            if hit:
                break
        _memo[key] = hit
        return hit
    drop_impls = {}
    for b in facts.bodies:
        if b.impl and b.impl.get("trait") == "std::ops::Drop":
            e = effectful(b.id)
            if e:
                drop_impls[b.impl["self_head"]] = e
    n = 0
    for b in facts.bodies:
        for c in b.calls:
            if not user_closure_call(c) or b.is_cleanup(c.b):
                continue
            t = b.term(c.b)
            if not isinstance(t.get("unwind"), int):
                continue
            n += 1
            r = reach(b, [Point(t["unwind"], 0)])
            bad = None
            for x in b.calls:
                if x.point in r and (an.is_retire(x) is not None or an.is_free(x) is not None or is_shared_write(x)):
                    bad = (x.span, "%s is called" % callee_str(x).rsplit("::", 2)[-1])
                elif x.point in r and x.resolved in facts.by_id and effectful(x.resolved) and not callee_str(x).endswith("mem::drop"):
                    bad = (x.span, "%s is called, which reaches %s" % (strip_generics(x.resolved), effectful(x.resolved)))
                elif x.point in r and callee_str(x).endswith("mem::drop") and x.args and op_root(x.args[0]) is not None and \
                        b.ty(op_root(x.args[0])).get("base") in drop_impls:
                    bad = (x.span, "a %s is dropped, whose Drop reaches %s" % (b.ty(op_root(x.args[0]))["base"], drop_impls[b.ty(op_root(x.args[0]))["base"]]))
            for bi in range(len(b.blocks)):
                tt = b.term(bi)
                if tt["k"] == "drop" and b.term_point(bi) in r and (tt.get("ty") or {}).get("base") in drop_impls:
                    bad = (tt["span"], "a %s is dropped, whose Drop reaches %s" % (tt["ty"]["base"], drop_impls[tt["ty"]["base"]]))
            ctx.inst("U8", b, "unwinding out of the callback at %s" % c.span.split(":", 1)[1], c.span, bad is None,
                     "the cleanup path retires, frees and writes nothing" if bad is None else
                     "if the closure called at %s panics, on the unwind path %s (%s): the map is changed although the operation did not take effect"
                     % (c.span, bad[1], bad[0]))
    if n < 2:
        ctx.fail_closed("U8: expected at least the two callback sites of compute_if_present, found %d" % n)


def rule_u9(ctx, facts):
    """a panic of a caller-supplied closure that is CAUGHT (catch_unwind) and re-raised later changes nothing either: on every path from
    the `Err` edge of the caught result to the re-raise / the return, nothing is written, retired, freed, unlinked or counted.  ESP keeps
    the flags the function branches on (`removed_node`, the Option that carries the new value), so a correct "remember the payload, leave
    the arm, re-raise after the unlock" passes and an arm that maps the payload to `None` -- which the code below reads as "remove" --
    is reported."""
    from .esp import Esp, Spec
    from .anchors import anchors
    an = anchors(facts)
    cg = callgraph(facts)
    n = 0
    for b in facts.bodies:
        for c in b.calls:
            s = callee_str(c)
            if not s.endswith(("panic::catch_unwind", "panicking::try", "panicking::catch_unwind")) or b.is_cleanup(c.b):
                continue
            # does the protected closure run caller-supplied code?  (closure argument, possibly wrapped in AssertUnwindSafe)
            runs_user = None
            for a in c.args:
                l = op_root(a)
                if l is None:
                    continue
                for x in range(len(b.locals)):
                    head = b.ty(x).get("head", "")
                    cid = head[len("closure:"):] if head.startswith("closure:") else None
                    if cid and cid in facts.by_id and (x == l or l in flow(b).flows_to(x)):
                        seen = set(cg.reachable(cid)) | {cid}
                        runs_user = any(user_closure_call(y) for bid in seen if bid in facts.by_id for y in facts.by_id[bid].calls)
            if runs_user is False:
                continue
            n += 1
            dl = c.dst_local()
            res = {dl} | set(flow(b).flows_to(dl)) if dl is not None else set()
            muts = dict(mutations(b, an))
            for x in b.calls:
                if callee_str(x).endswith("HashMap::add_count") and not b.is_cleanup(x.b):
                    muts[x.point] = "add_count"
            muts = {p: d for p, d in muts.items() if d != "user closure"}
            err_edges = set()
            from .analysis import discr_switch
            for bi in range(len(b.blocks)):
                ds = discr_switch(b, bi)
                if ds and ds["kind"] == "is_ok" and ds["arg"] in res:
                    err_edges.add((bi, ds["false"]))

            class Caught(Spec):
                def __init__(self):
                    self.bad = {}

                def initial(self):
                    return "normal"

                def on_edge(self, bb, tb, label, ts, env):
                    if (bb, tb) in err_edges:
                        return ["caught"]
                    return [ts]

                def on_call(self, pt, call, ts, env):
                    if ts == "caught" and pt in muts:
                        self.bad.setdefault(pt, muts[pt])
                    return [ts]
            if err_edges:
                spec = Caught()
                Esp(b, spec).run()
                bad = sorted(spec.bad.items())
            else:
                r = reach(b, after(b, c.point, label="ret"))
                bad = sorted((p, d) for p, d in muts.items() if p in r)
            ctx.inst("U9", b, "caught panic of the callback at %s" % c.span.split(":", 1)[1], c.span, not bad,
                     "after the panic was caught nothing is written, retired, unlinked or counted before it is re-raised" if not bad else
                     "the panic of the closure is caught at %s and, on a path from the Err edge, %s at %s still happens before the panic is "
                     "passed on: the entry being processed does not stay as it was" % (c.span, bad[0][1], b.span_at(bad[0][0])))
    return n


def rule_u10(ctx, facts):
    """unwinding out of a caller-supplied closure does not panic again: no value dropped on the cleanup path from the closure call to
    `resume` has a `Drop` impl (of a crate type) that can panic -- an assertion in a scope guard / "drop bomb" that is alive while the
    closure runs turns the caller's panic into a process abort (panic in a destructor during cleanup).  A Drop impl that asks
    `std::thread::panicking()` is taken to stand down while unwinding."""
    from .rules_c19 import is_panic
    cg = callgraph(facts)
    panicky = {}
    for b in facts.bodies:
        if not (b.impl and b.impl.get("trait") in ("std::ops::Drop", "core::ops::Drop")):
            continue
        hit = None
        stands_down = False
        for rid in [b.id] + sorted(cg.reachable(b.id)):
            rb = facts.by_id.get(rid)
            if rb is None:
                continue
            for c in rb.calls:
                if callee_str(c).endswith("thread::panicking"):
                    stands_down = True
                if is_panic(c) and not rb.is_cleanup(c.b) and hit is None:
                    hit = "%s at %s" % (callee_str(c).rsplit("::", 2)[-1], c.span)
            for bi in range(len(rb.blocks)):
                t = rb.term(bi)
                if t["k"] == "assert" and not rb.is_cleanup(bi) and hit is None and not t.get("overflow_check"):
                    pass
        if hit and not stands_down:
            panicky[b.impl["self_head"]] = hit
    n = 0
    for b in facts.bodies:
        for c in b.calls:
            if not user_closure_call(c) or b.is_cleanup(c.b):
                continue
            t = b.term(c.b)
            if not isinstance(t.get("unwind"), int):
                continue
            n += 1
            r = reach(b, [Point(t["unwind"], 0)])
            bad = None
            for bi in range(len(b.blocks)):
                tt = b.term(bi)
                if tt["k"] == "drop" and b.term_point(bi) in r and (tt.get("ty") or {}).get("base") in panicky:
                    bad = (tt["span"], tt["ty"]["base"], panicky[tt["ty"]["base"]])
            ctx.inst("U10", b, "no second panic while unwinding out of the callback at %s" % c.span.split(":", 1)[1], c.span, bad is None,
                     "no value dropped on the cleanup path has a Drop impl that can panic" if bad is None else
                     "if the closure called at %s panics, unwinding drops a %s (%s) whose Drop can panic (%s): a panic while unwinding aborts the "
                     "process instead of passing the caller's panic on" % (c.span, bad[1], bad[0], bad[2]))
    if n < 2:
        ctx.fail_closed("U10: expected at least the two callback sites of compute_if_present, found %d" % n)


def rule_u11(ctx, facts):
    """what retain / retain_force decided before a panic is carried out before the next predicate call: from the edge on which the
    predicate returned false, the removal (`replace_node`) is executed before the predicate can run again and before the function
    returns.  A removal that is put off until the next entry has been looked at is skipped when that next predicate call panics: an
    entry whose rejection had completed stays in the map."""
    from .analysis import cond_of, return_points
    n = 0
    for name in ("map::HashMap::retain", "map::HashMap::retain_force"):
        b = facts.body(name)
        fl = flow(b)
        preds = [x for x in b.calls if user_closure_call(x) and not b.is_cleanup(x.b)]
        rem = {x.point for x in b.calls if callee_str(x).endswith("HashMap::replace_node") and not b.is_cleanup(x.b)}
        for c in preds:
            dl = c.dst_local()
            if dl is None:
                continue
            mine = fl.copies_of(dl)
            edges = []
            for blk in range(len(b.blocks)):
                cd = cond_of(b, blk)
                if cd and ((cd["kind"] == "bool" and cd.get("local") in mine) or (cd["kind"] == "call" and cd["call"].point == c.point)):
                    edges.append((blk, cd["false"]))
            if not edges:
                ctx.inst("U11", b, "rejected entry removed before the next predicate call", c.span, True,
                         "the predicate's result is not branched on in this body; not judged", nontrivial=False)
                continue
            n += 1
            bad = None
            for blk, fb in edges:
                r = reach(b, [Point(fb, 0)], avoid=rem, unwind=False)
                if any(p.point in r for p in preds):
                    bad = "the predicate is called again (%s)" % [p.span for p in preds if p.point in r][0]
                elif any(rp in r for rp in return_points(b)):
                    bad = "the function returns"
            ctx.inst("U11", b, "rejected entry removed before the next predicate call", c.span, bad is None,
                     "from the edge on which the predicate returned false, replace_node runs before the predicate is called again or the function returns"
                     if bad is None else
                     "after the predicate called at %s returned false, %s before the entry is removed: if that later call panics, a removal that had "
                     "been decided is lost" % (c.span, bad))
    if n < 2:
        ctx.fail_closed("U11: expected the predicate calls of retain and retain_force with a branch on their result, found %d" % n)


def run(ctx, facts):
    ctx.rule("U11", "retain / retain_force carry out a removal they decided before the predicate runs again (nothing decided is pending across a callback)", floor=2)
    rule_u11(ctx, facts)
    ctx.rule("U10", "unwinding out of a caller-supplied closure cannot panic again: no drop glue on the cleanup path belongs to a Drop impl that can panic (no drop bomb alive across the callback)", floor=2)
    rule_u10(ctx, facts)
    ctx.rule("U9", "a caught panic of a caller-supplied closure (catch_unwind) is followed by no write, retire, unlink or count adjustment before it is re-raised", floor=0)
    rule_u9(ctx, facts)
    ctx.rule("U8", "unwinding out of a caller-supplied closure retires, frees and writes nothing (no effectful drop glue on the cleanup path)", floor=2)
    rule_u8(ctx, facts)
    ctx.rule("U7", "state changed around a callback is restored on the unwind path too (no thread-local bracket without a drop guard)", floor=2)
    rule_u7(ctx, facts)
    ctx.rule("U6", "lock acquisitions do not propagate poisoning: no std::sync lock whose LockResult is unwrapped", floor=8)
    rule_u6(ctx, facts)
    ctx.rule("U1", "every user-closure call under a bin lock unwinds through the Drop of that MutexGuard", floor=2)
    ctx.rule("U2", "no caller-supplied closure runs between lock_root and unlock_root; every path releases", floor=2)
    ctx.rule("U3", "retain / retain_force predicates are called under no lock", floor=2)
    ctx.rule("U4", "no shared write or retire between the lock acquisition and the callback", floor=2)
    ctx.rule("U5", "no caller-supplied closure runs between unlinking an entry and adjusting the count", floor=2)
    cg = callgraph(facts)
    # U1 + U4 over every body that calls a user closure while holding a bin lock
    n_locked = 0
    for b in facts.bodies:
        calls = [c for c in b.calls if user_closure_call(c) and not b.is_cleanup(c.b)]
        if not calls:
            continue
        muts = mutations(b)
        may_held, _rel = lock_may_be_held(b)
        for c in calls:
            held = [r for r in regions(b) if r.may_hold_at(c.point)]
            if c.point in may_held:
                n_locked += 1
                ok, why = cleanup_releases(b, c)
                ctx.inst("U1", b, "callback at %s" % c.span.split(":", 1)[1], c.span, ok, why if ok else
                         "a bin lock is (or may be) held when the callback runs, and if it panics the lock is never released: %s" % why)
            if not held:
                continue
            for r in held:
                ok, why = cleanup_drops_guard(b, c, tuple(getattr(r, "owners", None) or [r.guard]))       # whichever local owns the guard by then
                if not ok:
                    ctx.inst("U1", b, "callback at %s (guard %s)" % (c.span.split(":", 1)[1], b.local_name(r.guard)), c.span, False,
                             "if the callback panics the bin lock taken at %s stays held: %s" % (r.call.span, why))
                # U4
                before = reach(b, after(b, r.call.point, label="ret"), avoid={c.point} | r.kills)
                early = [(m, d) for m, d in muts.items() if m in before and m != c.point and d != "user closure" and m in r.may]
                # only mutations from which the callback is still reachable inside the region
                early = [(m, d) for m, d in early if c.point in reach(b, after(b, m), avoid=r.kills)]
                # not mutations of the map: freeing an object this body allocated itself and never published (taking a boxed argument
                # back out of its box); a find_or_put_tree_val whose result says that it found the key and inserted nothing -- the
                # callback runs only on the non-null edge of that result
                def harmless(m, d):
                    mc = b.call_at(m[0]) if m[1] >= b.nstmts(m[0]) else None
                    if mc is None:
                        return False
                    if d == "free":
                        from .rules_c07 import private_roots
                        tl = op_root(mc.args[0]) if mc.args else None
                        return tl is not None and not private_roots(b, tl)
                    if d == "find_or_put_tree_val":
                        from .analysis import cond_of, dominated_by_edge
                        dl = mc.dst_local()
                        if dl is None:
                            return False
                        mine = flow(b).copies_of(dl)
                        for blk in range(len(b.blocks)):
                            cd = cond_of(b, blk)
                            if cd and cd["kind"] == "is_null" and cd.get("arg") in mine and dominated_by_edge(b, c.point, [(blk, cd["false"])]):
                                return True
                    return False
                early = [(m, d) for m, d in early if not harmless(m, d)]
                ctx.inst("U4", b, "callback precedes the mutations", c.span, not early,
                         "no write/retire on any path from the lock to the callback" if not early else
                         "%s at %s happens before the callback in the same critical section: a panic leaves the entry half-updated" % (early[0][1], b.span_at(early[0][0])))
    # raw locking primitives that bypass RAII
    for b in facts.bodies:
        for c in b.calls:
            s = callee_str(c)
            if s.endswith("mem::forget") and c.args and op_root(c.args[0]) is not None and "MutexGuard" in b.ty(op_root(c.args[0]))["s"]:
                ctx.inst("U1", b, "mem::forget(MutexGuard)", c.span, False, "a lock guard is forgotten: unwinding cannot release that lock")
            if s.endswith("RawMutex::lock") or s.endswith("Mutex::raw") or s.endswith("Mutex::force_unlock"):
                ctx.inst("U1", b, "raw lock", c.span, False, "%s bypasses the RAII guard" % s)
    # U2
    acq, rel = root_lock_fns(facts)
    if not acq or not rel:
        ctx.fail_closed("U2: root-lock acquire/release functions not found (lock_state CAS 0->WRITER / store 0)")
    acq_ids = {b.id for b in acq}
    rel_ids = {b.id for b in rel}
    user_reach = {}
    for b in facts.bodies:
        seen = cg.reachable(b.id)
        for bid in seen:
            if any(user_closure_call(c) and not facts.by_id[bid].is_cleanup(c.b) for c in facts.by_id[bid].calls):
                user_reach[b.id] = bid
                break
    for b in facts.bodies:
        if b.id in acq_ids:
            continue
        for c in b.calls:
            if c.resolved not in acq_ids or b.is_cleanup(c.b):
                continue
            rels = root_release_points(facts, b, rel_ids)
            inside = reach(b, after(b, c.point, label="ret"), avoid=rels)
            bad = None
            for x in b.calls:
                if x.point not in inside or b.is_cleanup(x.b):
                    continue
                # C18 is about caller-supplied closures; Hash/Ord/Eq of the key type are outside its statement (the read-lock region of
                # TreeBin::find already runs key comparisons with no unwind guard in the pinned code)
                if user_closure_call(x):
                    bad = (x, "the caller-supplied closure %s" % x.path)
                elif x.resolved in user_reach and x.resolved not in acq_ids:
                    bad = (x, "%s, which reaches a caller-supplied closure in %s" % (strip_generics(x.resolved), strip_generics(user_reach[x.resolved])))
                if bad:
                    break
            # and every normal path reaches the release
            from .analysis import return_points
            leaks = [rp for rp in return_points(b) if rp in inside]
            ok = bad is None and not leaks
            ctx.inst("U2", b, "root-lock region from %s" % c.span.split(":", 1)[1], c.span, ok,
                     "no caller-supplied closure between lock_root and unlock_root; every path releases" if ok else
                     ("calls %s at %s while the tree write lock (released only by an explicit store) is held" % (bad[1], bad[0].span) if bad else
                      "a path returns without unlock_root"))
    # U3
    for name in ("map::HashMap::retain", "map::HashMap::retain_force"):
        b = facts.body(name)
        preds = [x for x in b.calls if user_closure_call(x) and not b.is_cleanup(x.b)]
        bad = [x for x in preds if any(r.may_hold_at(x.point) for r in regions(b))]
        ctx.inst("U3", b, "predicate under no lock", b.span, bool(preds) and not bad,
                 "%d predicate call(s); no lock region open" % len(preds) if preds and not bad else
                 ("predicate called at %s with a lock held" % bad[0].span if bad else "no predicate call found"))
    # U5: no caller-supplied closure runs between an unlink and the adjustment of the count (a panic there would leave len() wrong for good)
    from .rules_c05 import find_removal_bodies, CountSpec, lifted_count_check
    from .esp import Esp
    ac = facts.body("map::HashMap::add_count")
    uncounted = []
    for b, c, e in find_removal_bodies(facts):
        spec = CountSpec(b, -1, c, e, ac.id)
        Esp(b, spec).run()
        if spec.closure_while_pending:
            for (pt, why) in [k for k in spec.errors if "closure runs between" in k[1]][:2]:
                ctx.inst("U5", b, "callback between unlink and count adjustment", b.span_at(pt), False, why)
        else:
            ctx.inst("U5", b, "no callback between unlink and count adjustment", b.span, True, "%d unlink site(s)" % len(c))
        if spec.returns_pending and not b.exported:
            uncounted.append(b)
    lifted_count_check(ctx, facts, uncounted, rule="U5")
    if n_locked < 2:
        ctx.fail_closed("U1: expected the two compute_if_present callback sites under a bin lock, found %d" % n_locked)
