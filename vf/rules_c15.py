"""C15 -- updates happen-before the reads that observe them: ordering discipline.
H1 publishing stores >= Release / H2 observing raw loads >= Acquire (guarded loads are SeqCst inside seize) /
H3 Relaxed only where something else orders it (private target, tree write-lock region, bin-lock region, exclusive access) /
H4 no Relaxed load of a shared slot through an unprotected guard outside exclusive contexts."""
from .analysis import flow, reach, after, Point, dominates, held_regions_at, regions
from .anchors import anchors, callee_str, is_std_atomic, is_reclaim_atomic, receiver_field
from .callgraph import callgraph
from .facts import op_root, op_local, strip_generics
from .protocol import bin_lock_region
from .rules_c07 import private_roots
from .rules_c01 import transitive_params, NODE_LEVEL

PROP = "C15"
LEVEL = "other"
EXPLANATION = (
    "Every atomic operation on a synchronising location of the crate -- the pointer slots behind reclaim::Atomic (bins, table / next_table, "
    "Node.next / value, TreeBin.first / root / waiter, tree links) and the tree-bin lock word and colour bits -- is enumerated with its "
    "constant memory ordering (resolved through the one-line wrappers Table::bin / cas_bin / store_bin / next_table). H1: a store, swap "
    "or successful CAS that can publish data is >= Release. H2: raw loads (not going through Guard::protect, which seize executes SeqCst for "
    "pinned guards) and loads of the lock word are >= Acquire; the failure ordering of the bin CAS, whose failure value is dereferenced, "
    ">= Acquire. H3: a weaker ordering is accepted only in a context that is ordered by something else, classified mechanically: (a) the "
    "target node is private to the body; (b) the site lies between lock_root and unlock_root (released by unlock_root's Release store, "
    "acquired by the readers' CAS on the lock word); (c) a Relaxed read inside a must-held bin-lock region whose writers are all under "
    "the same lock; (d) exclusive &mut self / Drop. Helper functions that work on the nodes they are handed (rotations, balancing, "
    "TreeBin::new, untreeify, Atomic::clone) are lifted to their call sites. H4: unprotected guards only reach loads in exclusive "
    "contexts. These are the release/acquire edges from which the happens-before chain insert -> (copy under the bin lock) -> lookup is "
    "built. Relaxing SeqCst to Release/Acquire does not trip the rule; dropping below does. Not decided: full C++11 model behaviour.")

RANK_STORE = {"Relaxed": 0, "Acquire": 0, "Release": 1, "AcqRel": 1, "SeqCst": 1}
RANK_LOAD = {"Relaxed": 0, "Release": 0, "Acquire": 1, "AcqRel": 1, "SeqCst": 1}


def ordering_of(body, op):
    """'SeqCst' ... for an operand that is a constant Ordering; ('param', k) if it forwards a parameter; None"""
    l = op_local(op)
    if l is None:
        return None
    fl = flow(body)
    seen = set()
    while l not in seen:
        seen.add(l)
        srcs = fl.sources(l)
        if len(srcs) != 1:
            return None
        kind, data, pt = srcs[0]
        if kind == "agg" and data["rv"]["agg"].get("adt", "").endswith("atomic::Ordering"):
            return data["rv"]["agg"]["variant"]
        if kind == "copy":
            l = data
            continue
        if kind == "arg":
            return ("param", data)
        return None
    return None


def wrapper_orderings(facts):
    """Table::bin / cas_bin / store_bin / next_table: orderings of the single atomic op in the body"""
    out = {}
    for name in ("raw::Table::bin", "raw::Table::cas_bin", "raw::Table::store_bin", "raw::Table::next_table"):
        b = facts.body(name)
        for c in b.calls:
            n = is_reclaim_atomic(c)
            if n in ("load", "store", "swap", "compare_exchange"):
                ords = [ordering_of(b, a) for a in c.args]
                out[b.id] = (n, [o for o in ords if isinstance(o, str)], c)
    return out


def root_lock_region_points(body, acq_ids, rel_ids):
    pts = set()
    for c in body.calls:
        if c.resolved in acq_ids and not body.is_cleanup(c.b):
            from .rules_c18 import root_release_points
            rels = root_release_points(body.facts, body, rel_ids)
            pts |= reach(body, after(body, c.point, label="ret"), avoid=rels)
    return pts


class Classifier:
    def __init__(self, facts):
        self.facts = facts
        self.cg = callgraph(facts)
        from .rules_c18 import root_lock_fns
        acq, rel = root_lock_fns(facts)
        self.acq_ids = {b.id for b in acq}
        self.rel_ids = {b.id for b in rel}
        self._root_pts = {}
        self._lift_cache = {}

    def root_pts(self, body):
        if body.id not in self._root_pts:
            self._root_pts[body.id] = root_lock_region_points(body, self.acq_ids, self.rel_ids)
        return self._root_pts[body.id]

    def context(self, body, pt, target_local, want_lock=True, depth=0):
        """why a weak ordering at `pt` on `target_local` is acceptable, or None.  Lifts helpers to their call sites."""
        if target_local is not None and not private_roots(body, target_local):
            return "(a) private target"
        if pt in self.root_pts(body):
            return "(b) inside the tree write-lock region"
        held = [r for r in held_regions_at(body, pt) if bin_lock_region(r)]
        if held and want_lock:
            return "(c) inside the bin-lock region opened at %s" % held[0].call.span
        if (body.nargs >= 1 and body.ty(1)["s"].startswith("&mut ")) or (body.impl and body.impl.get("trait") == "std::ops::Drop"):
            return "(d) exclusive access (&mut self / Drop)"
        if depth >= 4 or body.exported:
            return None
        # helper working on nodes reached from its parameters: every call site must provide the context
        if target_local is not None:
            params, other = transitive_params(body, target_local)
            if not params or other or not all(body.ty(k).get("base") in NODE_LEVEL + ("seize::Linked",) for k in params):
                return None
        callers = [(cid, via) for cid, via in self.cg.callers(body.id) if hasattr(via, "point") and cid != body.id]
        if not callers:
            return None
        whys = []
        for cid, via in callers:
            g = self.facts.by_id[cid]
            if g.is_cleanup(via.b):
                continue
            # the node argument(s) handed over
            arg_locals = [op_root(a) for a in via.args if op_root(a) is not None and g.ty(op_root(a)).get("base") in NODE_LEVEL + ("seize::Linked",)]
            tl = arg_locals[0] if arg_locals else None
            w = None
            if arg_locals and all(not private_roots(g, x) for x in arg_locals):
                w = "(a) private target"
            if w is None:
                w = self.context(g, via.point, tl if tl is not None else None, want_lock, depth + 1) if tl is not None else \
                    self.context(g, via.point, None, want_lock, depth + 1)
            if w is None:
                return None
            whys.append("%s: %s" % (strip_generics(cid).rsplit("::", 1)[-1], w))
        return "lifted to %d call site(s): %s" % (len(whys), "; ".join(sorted(set(whys)))[:260])


def run(ctx, facts):
    ctx.rule("H1", "publishing stores / swaps / successful CAS on pointer slots and the lock word are >= Release unless H3", floor=50, floor_note="52 publishing sites counted on the pinned tree")
    ctx.rule("H2", "raw loads of pointer slots, loads of the lock word and colour bits, and dereferenced CAS failure values are >= Acquire unless H3", floor=20)
    ctx.rule("H3", "every weaker ordering sits in a context ordered by something else: (a) private, (b) tree write lock, (c) bin lock, (d) exclusive", floor=40)
    ctx.rule("H4", "guarded loads with an explicit Relaxed ordering are either under a pinned guard in an ordered context or exclusive", floor=5)
    cl = Classifier(facts)
    wr = wrapper_orderings(facts)
    n_sites = 0
    for b in facts.bodies:
        if b.sid.startswith("reclaim::") or "reclaim::Atomic" in b.sid:
            inner = True
        else:
            inner = False
        for c in b.calls:
            if b.is_cleanup(c.b):
                continue
            n = is_reclaim_atomic(c)
            s = callee_str(c)
            site = None
            if n in ("store", "swap", "compare_exchange", "load") and not inner:
                ords = [ordering_of(b, a) for a in c.args]
                consts = [o for o in ords if isinstance(o, str)]
                if any(isinstance(o, tuple) for o in ords) and c.resolved not in wr and b.id in wr:
                    continue
                site = (n, consts, receiver_field(b, c, 0), op_root(c.args[0]))
            elif c.resolved in wr and b.id not in wr:
                wn, consts, wc = wr[c.resolved]
                site = (wn, consts, {("raw::Table", "bins[i]" if "bin" in s or "cas" in s else "next_table")}, op_root(c.args[0]))
            sn = is_std_atomic(c)
            if site is None and sn and (receiver_field(b, c, 0) & {("node::TreeBin", "lock_state"), ("node::TreeNode", "red")}):
                ords = [ordering_of(b, a) for a in c.args]
                consts = [o for o in ords if isinstance(o, str)]
                kind = {"load": "load", "store": "store", "swap": "swap", "compare_exchange": "compare_exchange"}.get(sn, "rmw")
                site = (kind, consts, receiver_field(b, c, 0), op_root(c.args[0]))
            if site is None:
                continue
            kind, consts, fields, tl = site
            if not consts:
                ctx.inst("H1", b, "%s with a non-constant ordering" % kind, c.span, False, "memory ordering of this %s is not a constant" % kind)
                continue
            n_sites += 1
            fld = "/".join(sorted("%s.%s" % (a.rsplit("::", 1)[-1], f) for a, f in fields)) or "slot"
            what = "%s %s [%s]" % (kind, fld, ",".join(consts))
            if kind in ("store", "swap", "compare_exchange", "rmw"):
                strong = RANK_STORE[consts[0]] == 1
                rule = "H1"
                need = "Release"
            else:
                strong = RANK_LOAD[consts[0]] == 1
                rule = "H2"
                need = "Acquire"
            if kind == "load" and n == "load" and strong:
                ctx.inst("H2", b, what, c.span, True, "guarded load (seize protect: SeqCst for pinned guards), declared %s" % consts[0])
                continue
            if strong:
                ctx.inst(rule, b, what, c.span, True, ">= %s" % need)
                # CAS failure ordering when the failure value is dereferenced
                continue
            # weak ordering: needs a context.  Loads may rely on the bin lock (c); stores may too (their readers are under the same lock
            # only for Relaxed *reads*), so for stores (c) is not accepted unless the target is private or write-locked.
            why = cl.context(b, c.point, tl, want_lock=(kind == "load"))
            if kind == "load" and n == "load":
                # guarded load with explicit Relaxed: fine under a pinned guard (seize loads SeqCst); H4 covers unprotected guards
                ctx.inst("H4", b, what, c.span, True, "guarded load, declared Relaxed: SeqCst inside seize for pinned guards; context: %s" % (why or "none needed"))
                continue
            ctx.inst("H3", b, what, c.span, why is not None,
                     why if why else "%s ordering on %s with nothing else ordering it: not a private node, not inside the tree write-lock region%s, not exclusive"
                     % (consts[0], fld, "" if kind != "load" else " or a bin-lock region"))
    # cas_bin failure ordering (failure value is dereferenced by put)
    wn, consts, wc = wr[facts.body("raw::Table::cas_bin").id]
    okf = len(consts) >= 2 and RANK_LOAD[consts[1]] == 1
    ctx.inst("H2", facts.body("raw::Table::cas_bin"), "cas_bin failure ordering [%s]" % ",".join(consts), wc.span, okf,
             "failure value (dereferenced by put) is loaded with >= Acquire" if okf else "the failure value of the bin CAS is dereferenced but loaded with %s" % consts[1:])
    # raw loads inside reclaim.rs: Atomic::clone (Relaxed) is lifted to its call sites
    for b in facts.bodies:
        if not b.sid.startswith("reclaim::") and "reclaim::Atomic" not in b.sid and "for reclaim::Atomic" not in b.sid:
            continue
        for c in b.calls:
            if is_std_atomic(c) == "load" and not b.is_cleanup(c.b):
                consts = [o for o in (ordering_of(b, a) for a in c.args) if isinstance(o, str)]
                if not consts:
                    continue  # forwards the caller's ordering (Atomic::load is handled at its call sites)
                if RANK_LOAD[consts[0]] == 1:
                    ctx.inst("H2", b, "raw load [%s]" % consts[0], c.span, True, ">= Acquire")
                    continue
                # lifted: every call site of this function
                callers = [(cid, via) for cid, via in cl.cg.callers(b.id) if hasattr(via, "point")]
                for cid, via in callers:
                    g = facts.by_id[cid]
                    if g.is_cleanup(via.b):
                        continue
                    tl = op_root(via.args[0]) if via.args else None
                    why = cl.context(g, via.point, tl, want_lock=True)
                    ctx.inst("H3", g, "raw Relaxed load via %s" % strip_generics(b.id).rsplit("::", 2)[-2], via.span, why is not None,
                             why if why else "Relaxed pointer copy outside any bin-lock region / private / exclusive context")
    # unlock_root must release, contended_lock must acquire: covered above as lock_state sites; assert presence
    ctx.note("H: %d atomic sites on synchronising locations classified" % n_sites)
