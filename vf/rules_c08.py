"""C08 -- compute_if_present is an atomic read-modify-write.  A1 callback only inside a validated bin-lock region /
A2 the value handed to it was loaded in that region / A3 the write applying the result is in the same region, both arms handled /
A4 FnOnce in the signature."""
from .analysis import flow, reach, after, Point, held_regions_at
from .anchors import callee_str, is_shared_write, receiver_field, is_reclaim_atomic
from .facts import op_root, strip_generics
from .protocol import validated_regions, user_closure_call, bin_lock_region, mutations

PROP = "C08"
LEVEL = "other"
EXPLANATION = (
    "The lock-based atomicity argument, checked on every path of compute_if_present (list arm and tree arm): (A1) the remapping function "
    "is called only inside a bin-lock region, after the `still the head` re-validation, and nowhere else; (A2) the value passed to it is "
    "loaded from the node's value slot inside that same region; (A3) from the callback's return, the write that applies the result (value "
    "swap for Some, unlink / remove_tree_node for None) is reached without the lock guard being dropped, and both arms exist; no write to "
    "bin contents follows the callback outside the region; (A4) the parameter is bound by FnOnce on every facade, so 'at most once' is the "
    "type system's. With L1/L2 of C01 (every other writer of the bin takes the same lock and re-validates) no insert, removal or compute on "
    "the same key can take effect between the read and the write. Not decided separately: behaviour of concrete racing histories.")


def run(ctx, facts):
    ctx.rule("A1", "the user closure of compute_if_present runs only inside a validated bin-lock region", floor=2)
    ctx.rule("A2", "the value passed to the closure is loaded from Node.value inside the same region", floor=2)
    ctx.rule("A3", "the write applying the closure's result is in the same region (no unlock in between); Some and None arms both handled", floor=2)
    ctx.rule("A4", "the remapping function runs at most once per call (FnOnce bound, or no second call reachable)", floor=2)
    ctx.rule("A5", "compute_if_present and every other writer of a bin: lock -> re-validate -> act, with no link of the bin loaded before the lock "
                   "carried into the section (rule L1 of C01): a writer that replaces bin contents it read under an earlier critical section "
                   "overwrites a compute that took effect in between", floor=11)
    from .rules_c01 import rule_l1, rule_l2
    rule_l1(ctx, facts, rule="A5")
    ctx.rule("A6", "entries are linked / unlinked, values swapped and bins replaced only under the bin lock (rule L2 of C01): a writer that "
                   "changes a value without the lock lands in the middle of a compute_if_present on the same key", floor=30)
    rule_l2(ctx, facts, rule="A6")
    ctx.rule("A7", "compute_if_present tries again when the bin it locked is no longer the head (rule L14 of C01): giving up there skips the "
                   "remapping function for a key that is present", floor=2)
    from .rules_c01 import rule_l14
    rule_l14(ctx, facts, rule="A7", only=("map::HashMap::compute_if_present",))
    cip = facts.body("map::HashMap::compute_if_present")
    fl = flow(cip)
    vs = [v for v in validated_regions(cip) if bin_lock_region(v.region)]
    calls = [c for c in cip.calls if user_closure_call(c) and not cip.is_cleanup(c.b)]
    # a nested closure that calls the remapping function but is not itself called by compute_if_present (handed to something else)
    # escapes the region; one that is called here counts as the callback site through user_closure_call
    invoked = {c.resolved for c in calls}
    for b in facts.closures_of(cip):
        ucs = [c for c in b.calls if user_closure_call(c) and not b.is_cleanup(c.b)]
        if ucs and b.id not in invoked:
            ctx.inst("A1", cip, "closure call outside the method body", ucs[0].span, False,
                     "the remapping function is called from a nested closure that compute_if_present does not itself invoke")
    if not calls:
        ctx.fail_closed("A1: no call of the remapping function found in compute_if_present")
    muts = mutations(cip)
    for c in calls:
        v = next((v for v in vs if c.point in v.region.points), None)
        if v is None:
            ctx.inst("A1", cip, "callback under the bin lock", c.span, False, "the remapping function is called at %s while no bin lock is held" % c.span)
            continue
        okv = v.switch is not None and v.dominated_by_validation(c.point)
        ctx.inst("A1", cip, "callback under the bin lock", c.span, okv,
                 "inside the region opened at %s, after the head re-validation" % v.region.call.span if okv else
                 "called under the lock but not after the `still the head` check (%s)" % (v.why or "not dominated by the equal edge"))
        # A2: arguments derive from a Node.value load in the region
        ok2 = False
        src = None
        for a in c.args:
            l = op_root(a)
            if l is None:
                continue
            for rc in fl.call_roots(l):
                if rc is not None and is_reclaim_atomic(rc) == "load" and ("node::Node", "value") in receiver_field(cip, rc, 0):
                    src = rc
                    if rc.point in v.region.points and v.dominated_by_validation(rc.point):
                        ok2 = True
        ctx.inst("A2", cip, "value read under the same lock", c.span, ok2,
                 "value loaded at %s inside the region" % src.span if ok2 else
                 ("the value handed to the callback was loaded at %s, outside the validated lock region" % src.span if src else
                  "the value handed to the callback does not come from a Node.value load"))
        # A3: after the callback, within the region: a value swap/store and an unlink; nothing applied after the unlock
        r = v.region
        after_cb = reach(cip, after(cip, c.point, label="ret"), avoid=r.kills)
        in_reg = {m: d for m, d in muts.items() if m in after_cb and m in r.points}
        has_swap = any(d.startswith("swap value") or d.startswith("store value") for d in in_reg.values())
        has_unlink = any(d.startswith("store next") or d.startswith("store_bin") or d == "remove_tree_node" for d in in_reg.values())
        all_after = reach(cip, after(cip, c.point, label="ret"))
        late = []
        for m, d in muts.items():
            if m in all_after and m not in r.points and not d.startswith("retire") and d != "user closure":
                # a write to bin contents after the unlock that is only reachable through this callback's arm
                if not any(m in vv.region.points for vv in vs):
                    late.append((m, d))
        ok3 = has_swap and has_unlink and not late
        ctx.inst("A3", cip, "result applied under the same lock", c.span, ok3,
                 "value swap and unlink both inside the region; no bin write after the unlock" if ok3 else
                 ("Some arm (value swap) missing inside the region" if not has_swap else
                  "None arm (unlink) missing inside the region" if not has_unlink else
                  "%s at %s happens after the bin lock was released" % (late[0][1], cip.span_at(late[0][0]))))
    # A4: at most once -- by the type (FnOnce: the call consumes the closure) or, for a weaker bound, by the shape of the body: no call of
    # the remapping function is reachable from after another one (retry loops included)
    for b in facts.bodies:
        if b.name == "compute_if_present" and b.kind != "Closure" and b.exported:
            import re
            fp = [p for p in b.predicates if re.search(r"(^|> )F: ", p) and "Sized" not in p]
            once_by_type = any(re.search(r"F: (std::ops::)?FnOnce[(<]", p) for p in fp) and not [
                p for p in fp if re.search(r"F: (std::ops::)?(FnMut|Fn)[(<]", p)]
            ucs = [c for c in b.calls if user_closure_call(c) and not b.is_cleanup(c.b)]
            again = None
            for c in ucs:
                r = reach(b, after(b, c.point, label="ret"))
                hit = [x for x in ucs if x.point in r]
                if hit:
                    again = (c, hit[0])
                    break
            ok = once_by_type or again is None
            ctx.inst("A4", b, "remapping function runs at most once", b.span, ok,
                     ("bound by FnOnce" if once_by_type else "no call of the remapping function is reachable from after another one (%d site(s))" % len(ucs)) if ok else
                     "the remapping function can run again at %s after it ran at %s (and its bound does not forbid it)" % (again[1].span, again[0].span))
