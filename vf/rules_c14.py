"""C14 -- capacity contract (clauses).  K1 counter/atomic agreement / K2 capacity rounding and 3/4 thresholds (affine) /
K3 growth initiators (who-may-call) / K4 cap guard, never shrinks / K5 constants and operators / K6 capacity 0 allocates nothing."""
from fractions import Fraction

from .affine import facts_at, le_at, ne0_at, evaluator, evaluator_exact, floor_shift, Aff, TOP
from .analysis import flow, cond_of, dominated_by_edge, reach, entry, Point, dominates, return_points, after
from .anchors import callee_str, is_std_atomic, receiver_field, is_reclaim_atomic
from .callgraph import callgraph
from .facts import strip_generics, op_root, op_local, op_int

PROP = "C14"
LEVEL = "other"
EXPLANATION = (
    "Clauses. K1 (affine forms): wherever the entry counter is adjusted by an atomic read-modify-write and the result is then compared "
    "with the resize threshold, the local must equal what the RMW left in memory (fetch_add(x) leaves r+x, fetch_sub(x) leaves r-x, "
    "abs(n) resolved by the sign branch) -- otherwise removals look like growth. K2: capacity rounding is min(2^30, "
    "next_power_of_two(c + c/2 + 1)) in both presize and try_presize (sibling agreement) and every threshold written to size_ctl "
    "after creating/replacing a table is 3/4 of that table's length. K3: a resize is initiated (transfer(_, null)) only from add_count "
    "and try_presize; try_presize is called only from reserve and from treeify_bin's len < 64 branch; add_count's resize loop is behind "
    "the resize-hint test and every removal path except compute_if_present passes no hint. K4: initiations are guarded by len < 2^30; the "
    "table pointer is only ever replaced by a freshly allocated (doubled) table. K5: the constants named in the contract have the stated "
    "values and the comparisons at their use sites the stated direction. K6: with capacity 0 no table is allocated. "
    "Not decided: 'holds c well-distributed entries' (depends on the hash distribution) and run-time counts.")


def find_size_ctl_loads(body):
    return [c for c in body.calls if is_std_atomic(c) == "load" and ("map::HashMap", "size_ctl") in receiver_field(body, c, 0)]


def sign_fact(body, pt, sym_arg):
    """sign of parameter symbol at point pt from a dominating `match x.cmp(&0)`: returns -1, 0, +1 or None"""
    ev = evaluator(body)
    # by a dominating comparison (`if n < 0`, `else if n > 0`, ...)
    from .affine import le_at
    x = Aff.sym(sym_arg)
    if le_at(body, pt, x, -1) is not None:
        return -1
    if le_at(body, pt, x.scale(-1), -1) is not None:
        return 1
    if le_at(body, pt, x, 0) is not None and le_at(body, pt, x.scale(-1), 0) is not None:
        return 0
    for c in body.calls:
        if not (c.callee and c.callee.get("trait") == "std::cmp::Ord" and c.name == "cmp"):
            continue
        a0 = c.arg_local(0)
        a1 = c.arg_local(1)
        if a0 is None or a1 is None:
            continue
        f0 = ev.operand({"copy": {"local": a0, "proj": ["deref"]}})
        f1 = ev.operand({"copy": {"local": a1, "proj": ["deref"]}})
        if f0 is TOP or f1 is TOP or f0 != Aff.sym(sym_arg) or not (f1.is_const() and f1.c == 0):
            continue
        # discriminant switch
        nb = c.target
        t = body.term(nb)
        if t["k"] != "switch":
            continue
        for v, tb in t["targets"]:
            sgn = {"255": -1, "18446744073709551615": -1, "0": 0, "1": 1}.get(v)
            if sgn is None:
                continue
            if dominated_by_edge(body, pt, [(nb, tb)]) and len([1 for v2, tb2 in t["targets"] if tb2 == tb]) == 1:
                return sgn
    return None


def rule_k1(ctx, facts):
    n = 0
    for b in facts.bodies:
        ev = evaluator(b)
        rmws = [c for c in b.calls if is_std_atomic(c) in ("fetch_add", "fetch_sub") and ("map::HashMap", "count") in receiver_field(b, c, 0)]
        if not rmws:
            continue
        sc_loads = find_size_ctl_loads(b)
        # comparisons of something with a size_ctl load
        compared = set()
        for blk in range(len(b.blocks)):
            for si, st in enumerate(b.blocks[blk]["stmts"]):
                if st["k"] == "assign" and "bin" in st["rv"] and st["rv"]["bin"] in ("Lt", "Le", "Gt", "Ge", "Eq", "Ne"):
                    la, lb = op_local(st["rv"]["a"]), op_local(st["rv"]["b"])
                    if la is None or lb is None:
                        continue
                    fa, fb = ev.local(la), ev.local(lb)
                    for x, fx, other in ((la, fa, fb), (lb, fb, fa)):
                        if other is not TOP and any(s[0] == "call" and b.call_at(s[1]) in sc_loads or
                                                    (s[0] == "call" and b.call_at(s[1]) is not None and any(b.call_at(s[1]).b == l.b for l in sc_loads))
                                                    for s in other.symbols()):
                            compared.add((x, st["span"]))
        for c in rmws:
            kind = is_std_atomic(c)
            r = ("call", c.b)
            d = ev.operand(c.args[1])
            if d is TOP:
                ctx.inst("K1", b, "%s on count" % kind, c.span, True, "delta not affine; not judged", nontrivial=False)
                continue
            # resolve abs(x) by the sign fact of the enclosing branch
            for s in list(d.symbols()):
                if s[0] == "call":
                    cc = b.call_at(s[1])
                    if cc is not None and callee_str(cc).endswith("::abs"):
                        inner = ev.operand(cc.args[0])
                        if inner is not TOP and len(inner.symbols()) == 1 and inner.c == 0:
                            sy = next(iter(inner.symbols()))
                            sg = sign_fact(b, c.point, sy)
                            if sg is not None and sg != 0:
                                d = d.subst(s, inner.scale(sg))
            mem = Aff.sym(r) + (d if kind == "fetch_add" else d.scale(-1))
            # every definition of a compared local whose form mentions r
            found = False
            for x, cspan in sorted(compared):
                srcs = set()
                stack = [x]
                seen = set()
                while stack:
                    y = stack.pop()
                    if y in seen:
                        continue
                    seen.add(y)
                    for pt, f in ev.def_forms(y):
                        if f is TOP:
                            continue
                        if r in f.symbols():
                            srcs.add((pt, f))
                        for s in f.symbols():
                            if s[0] == "phi":
                                stack.append(s[1])
                for pt, f in srcs:
                    found = True
                    n += 1
                    ok = (f == mem)
                    ctx.inst("K1", b, "count after %s" % kind, b.span_at(pt), ok,
                             ("local = %s equals memory = %s" if ok else
                              "the local compared with size_ctl at %s is %s but the RMW left %s in memory" % (cspan, "%s", "%s"))
                             % (f.show(b), mem.show(b)))
            if not found:
                ctx.inst("K1", b, "count after %s" % kind, c.span, True, "RMW result is not compared with size_ctl in this body", nontrivial=False)


def rule_k2(ctx, facts):
    MAXCAP = facts.const("MAXIMUM_CAPACITY")
    sibs = []
    for b in facts.bodies:
        ev = evaluator(b)
        for c in b.calls:
            if not callee_str(c).endswith("::next_power_of_two") or b.is_cleanup(c.b):
                continue
            f = ev.operand(c.args[0])
            # min(MAX, npot)
            mins = [m for m in b.calls if callee_str(m).endswith(("cmp::min", "Ord::min")) and any(op_root(a) is not None and ("call", c.b) in (ev.local(op_root(a)) or Aff()).symbols() for a in m.args)]
            min_const = None
            for m in mins:
                for a in m.args:
                    if op_int(a) is not None:
                        min_const = op_int(a)
            # guard: requests of MAX/2 and more skip the arithmetic (operator / operand order irrelevant)
            arg_sym = [s for s in (f.symbols() if f is not TOP else []) if s[0] == "arg"]
            guard = None
            if len(arg_sym) == 1:
                for kind, lin, bound, blk in facts_at(b, c.point):
                    if kind == "le" and lin.symbols() == {arg_sym[0]} and lin.coeff(arg_sym[0]) == 1:
                        ub = bound - lin.c
                        guard = ub if guard is None else min(guard, ub)
            ok = (f is not TOP and len(arg_sym) == 1 and f == Aff({arg_sym[0]: Fraction(3, 2)}, 1) and min_const == MAXCAP
                  and guard is not None and guard == MAXCAP // 2 - 1)
            desc = "next_power_of_two(%s), min with %s, reached only for requests <= %s" % (
                f.show(b) if f is not TOP else "?", min_const, guard)
            ctx.inst("K2", b, "capacity rounding", c.span, ok, desc if ok else "expected min(2^30, next_power_of_two(1.5*c + 1)) behind c >= 2^29; found " + desc)
            sibs.append((b, desc.replace(b.local_name(arg_sym[0][1]) or "", "c") if arg_sym else desc))
    # a rounding that lives in a helper is one rounding used by each of its callers
    if len(sibs) == 1:
        hb, hd = sibs[0]
        sites = [(cid, via) for cid, via in callgraph(facts).callers(hb.id) if hasattr(via, "point") and not facts.by_id[cid].is_cleanup(via.b)]
        for cid, via in sites:
            ctx.inst("K2", facts.by_id[cid], "capacity rounding through %s" % strip_generics(hb.id).rsplit("::", 1)[-1], via.span, True,
                     "uses the shared rounding: %s" % hd)
        if len(sites) >= 2:
            ctx.inst("K2", hb, "sibling agreement presize/try_presize", hb.span, True, "both paths call the one rounding in %s" % strip_generics(hb.id))
    if len(sibs) >= 2:
        same = len({d for _, d in sibs}) == 1
        ctx.inst("K2", sibs[0][0], "sibling agreement presize/try_presize", sibs[0][0].span, same,
                 "both roundings agree" if same else "the two capacity roundings differ: %s" % [(strip_generics(b.id), d) for b, d in sibs])
    # thresholds: every store to size_ctl in a body that creates a table
    for b in facts.bodies:
        ev = evaluator(b)
        news = [c for c in b.calls if callee_str(c).endswith("raw::Table::new") and not b.is_cleanup(c.b)]
        if not news:
            continue
        lens = [ev.operand(c.args[0]) for c in news]
        stores = [c for c in b.calls if is_std_atomic(c) == "store" and ("map::HashMap", "size_ctl") in receiver_field(b, c, 0) and not b.is_cleanup(c.b)]
        sc_loads = find_size_ctl_loads(b)
        for s in stores:
            vl = op_root(s.args[1])
            forms = []
            if vl is not None:
                f0 = ev.operand(s.args[1])
                if f0 is not TOP and len(f0.symbols()) == 1 and f0.c == 0 and next(iter(f0.symbols()))[0] == "phi" \
                        and f0.coeff(next(iter(f0.symbols()))) == 1:
                    forms = [f for _, f in ev.def_forms(next(iter(f0.symbols()))[1])]
                else:
                    forms = [f0]
            elif op_int(s.args[1]) is not None:
                forms = [Aff.const(op_int(s.args[1]))]
            for f in forms:
                if f is TOP:
                    ctx.inst("K2", b, "size_ctl threshold", s.span, False, "stored threshold is not an affine function of the table length")
                    continue
                restored = len(f.symbols()) == 1 and f.c == 0 and all(k[0] == "call" and any(b.call_at(k[1]).b == l.b for l in sc_loads) for k in f.symbols()) \
                    and all(v == 1 for v in f.terms.values())
                if restored:
                    ctx.inst("K2", b, "size_ctl restored", s.span, True, "writes back the value it read from size_ctl", nontrivial=False)
                    continue
                ok = any(L is not TOP and f == L.scale(Fraction(3, 4)) for L in lens)
                if ok:
                    # exactly: L - floor(L / 4) over the integers (table lengths 1 and 2 exist: with_capacity(1), reserve(0))
                    xe = evaluator_exact(b)
                    fx = xe.operand(s.args[1]) if vl is not None else f
                    if fx is not TOP and len(fx.symbols()) == 1 and next(iter(fx.symbols()))[0] == "phi" and fx.c == 0 \
                            and fx.coeff(next(iter(fx.symbols()))) == 1:
                        fxs = [g for _, g in xe.def_forms(next(iter(fx.symbols()))[1])]
                    else:
                        fxs = [fx]
                    Lx = [xe.operand(c.args[0]) for c in news]
                    want = [L2 - floor_shift(L2, 2) for L2 in Lx if L2 is not TOP]
                    exact = [g for g in fxs if g is not TOP and not (len(g.symbols()) == 1 and g.c == 0 and all(
                        k[0] == "call" and any(b.call_at(k[1]).b == l.b for l in sc_loads) for k in g.symbols()))]
                    bad = [g for g in exact if g not in want]
                    if bad:
                        ok = False
                        ctx.inst("K2", b, "size_ctl threshold", s.span, False,
                                 "the stored threshold %s equals 3/4 of the length only when the length is a multiple of 4; over the integers it is not "
                                 "L - floor(L/4) = %s: a table of 1 or 2 bins (with_capacity(1), reserve(0)) gets a threshold that its first insert already "
                                 "reaches" % (bad[0].show(b), want[0].show(b) if want else "?"))
                        continue
                ctx.inst("K2", b, "size_ctl threshold", s.span, ok,
                         "threshold %s = 3/4 * new table length %s" % (f.show(b), [L.show(b) for L in lens if L is not TOP]) if ok else
                         "threshold stored after allocating a table is %s, not 3/4 of its length %s" % (f.show(b), [L.show(b) if L is not TOP else "?" for L in lens]))


def is_null_shared_arg(body, op):
    l = op_root(op)
    if l is None:
        return False
    roots, _ = flow(body).roots(l)
    return bool(roots) and all(r[0] == "call" and callee_str(body.call_at(r[1])).endswith("reclaim::Shared::null") for r in roots)


def rule_k3_k4(ctx, facts):
    MAXCAP = facts.const("MAXIMUM_CAPACITY")
    MINTREE = facts.const("MIN_TREEIFY_CAPACITY")
    cg = callgraph(facts)
    transfer = facts.body("HashMap::transfer")
    try_presize = facts.body("HashMap::try_presize")
    add_count = facts.body("HashMap::add_count")
    allowed_init = {add_count.id, try_presize.id}
    n_init = 0
    for b in facts.bodies:
        ev = evaluator(b)
        for c in b.calls:
            if c.resolved != transfer.id or b.is_cleanup(c.b):
                continue
            initiating = is_null_shared_arg(b, c.args[2])
            if not initiating:
                ctx.inst("K3", b, "helping transfer", c.span, True, "passes the published next table (joins a resize, does not start one)", nontrivial=False)
                continue
            n_init += 1
            ok = b.id in allowed_init
            ctx.inst("K3", b, "initiates resize", c.span, ok, "allowed initiator" if ok else
                     "transfer(_, null) starts a resize outside add_count/try_presize: the table can grow without the count reaching the threshold")
            # K4 cap guard: some comparison dominating the call establishes  len <= MAXCAP - 1  for the length of the table being replaced
            # (operator and operand order do not matter)
            guarded = False
            for kind, lin, bound, blk in facts_at(b, c.point):
                if kind != "le" or len(lin.symbols()) != 1:
                    continue
                s0 = next(iter(lin.symbols()))
                is_len = (s0[0] == "call" and callee_str(b.call_at(s0[1])).endswith("Table::len")) or s0[0] == "phi"
                if is_len and lin.coeff(s0) == 1 and bound - lin.c <= MAXCAP - 1:
                    guarded = True
            ctx.inst("K4", b, "cap guard before initiating", c.span, guarded,
                     "a dominating comparison establishes len < MAXIMUM_CAPACITY" if guarded else
                     "a resize can be initiated without testing the table length against MAXIMUM_CAPACITY (2^30)")
    # who calls try_presize
    for b in facts.bodies:
        ev = evaluator(b)
        for c in b.calls:
            if c.resolved != try_presize.id or b.is_cleanup(c.b):
                continue
            if b.name == "reserve":
                ctx.inst("K3", b, "try_presize from reserve", c.span, True, "explicit reservation")
                # K7: room for `additional` *further* entries: the target is the current entry count plus the request
                f = ev.operand(c.args[1])
                lens = [s0 for s0 in (f.symbols() if f is not TOP else []) if s0[0] == "call" and callee_str(b.call_at(s0[1])).endswith("HashMap::len")]
                args_ = [s0 for s0 in (f.symbols() if f is not TOP else []) if s0[0] == "arg"]
                ok7 = f is not TOP and len(lens) == 1 and len(args_) == 1 and f == Aff({lens[0]: 1, args_[0]: 1})
                ctx.inst("K7", b, "reserve targets len() + additional", c.span, ok7,
                         "try_presize(%s)" % f.show(b) if ok7 else
                         "reserve asks try_presize for %s instead of len() + additional: with entries already present the reservation does not make room for "
                         "`additional` further ones" % (f.show(b) if f is not TOP else "a non-affine size"))
            elif b.name == "treeify_bin":
                ok = False
                for kind, lin, bound, blk in facts_at(b, c.point):
                    if kind == "le" and len(lin.symbols()) == 1 and lin.coeff(next(iter(lin.symbols()))) == 1 and bound - lin.c == MINTREE - 1:
                        ok = True
                ctx.inst("K3", b, "try_presize from treeify_bin", c.span, ok,
                         "only in the len < MIN_TREEIFY_CAPACITY branch" if ok else "treeify_bin grows the table outside its len < 64 branch")
            else:
                ctx.inst("K3", b, "try_presize caller", c.span, False, "try_presize is called from %s (only reserve and treeify_bin's small-table branch may)" % strip_generics(b.id))
    # add_count: the resize loop is behind the hint test; callers' hints
    hint_ok = False
    for blk in range(len(add_count.blocks)):
        cd = cond_of(add_count, blk)
        if cd and cd["kind"] == "is_none":
            calls = [c for c in add_count.calls if c.resolved == transfer.id]
            if calls and all(dominated_by_edge(add_count, c.point, [(blk, cd["false"])]) for c in calls):
                hint_ok = True
    ctx.inst("K3", add_count, "resize loop behind hint test", add_count.span, hint_ok,
             "every transfer call in add_count is dominated by resize_hint.is_some()" if hint_ok else
             "add_count can resize even when the caller passed no resize hint")
    for b in facts.bodies:
        for c in b.calls:
            if c.resolved != add_count.id or b.is_cleanup(c.b):
                continue
            hl = op_root(c.args[2])
            hint = "?"
            if hl is not None:
                srcs = flow(b).sources(hl)
                kinds = set()
                for kind, data, pt in srcs:
                    if kind == "agg" and "adt" in data["rv"]["agg"]:
                        kinds.add(data["rv"]["agg"]["variant"])
                hint = "/".join(sorted(kinds)) or "?"
            d = evaluator(b).operand(c.args[1])
            neg = d is not TOP and d.is_const() and d.c < 0
            delta = d.show(b) if d is not TOP else "?"
            if b.name in ("clear", "replace_node"):
                # informational: with K1 (the compared value is what the RMW left in memory) a decrement cannot newly satisfy
                # count >= size_ctl, so a hint on a removal path can at most run a resize that an earlier insert already made due --
                # exactly what compute_if_present's removal arm does in the pinned code (mutant audit, DESIGN 6.5)
                ctx.inst("K3", b, "removal path: add_count(%s, %s)" % (delta, hint), c.span, True, "no clause depends on the hint of a removal")
            else:
                ctx.inst("K3", b, "add_count(%s, %s)" % (delta, hint), c.span, True, "insert / compute path", nontrivial=False)
    # K4 never shrinks: what is stored into HashMap.table
    for b in facts.bodies:
        for c in b.calls:
            if b.is_cleanup(c.b):
                continue
            if is_reclaim_atomic(c) in ("store", "swap", "compare_exchange") and ("map::HashMap", "table") in receiver_field(b, c, 0):
                vl = op_root(c.args[1 if is_reclaim_atomic(c) != "compare_exchange" else 2])
                roots = flow(b).roots_at(vl, c.point) if vl is not None else set()
                desc = []
                ok = True
                for r in roots:
                    if r[0] == "call":
                        rc = b.call_at(r[1])
                        s = callee_str(rc)
                        if s.endswith("Shared::boxed"):
                            inner = op_root(rc.args[0])
                            ir, _ = flow(b).roots(inner)
                            if all(q[0] != "call" or callee_str(b.call_at(q[1])).endswith("Table::new") for q in ir):
                                desc.append("fresh Table::new")
                                continue
                        if s.endswith("Shared::null") and (b.impl and b.impl.get("trait") == "std::ops::Drop"):
                            desc.append("null in Drop")
                            continue
                        if is_reclaim_atomic(rc) == "load" and ("map::HashMap", "next_table") in receiver_field(b, rc, 0):
                            desc.append("the published next table")
                            continue
                        ok = False
                        desc.append(s)
                    elif r[0] == "arg":
                        if b.id == transfer.id:
                            desc.append("next table parameter of transfer")
                        else:
                            ok = False
                            desc.append("parameter %d" % r[1])
                ctx.inst("K4", b, "table pointer replaced", c.span, ok, "by: %s" % ", ".join(sorted(set(desc))))


def rule_k5(ctx, facts):
    exp = {"MIN_TREEIFY_CAPACITY": 64, "DEFAULT_CAPACITY": 16, "MAXIMUM_CAPACITY": 1 << 30, "TREEIFY_THRESHOLD": 8}
    for k, v in exp.items():
        got = facts.const(k)
        ctx.inst("K5", "map::" + k, "constant value", facts.consts.get("map::" + k, {}).get("span", "src/map.rs"), got == v,
                 "%s == %d" % (k, got) if got == v else "%s is %d, the contract says %d" % (k, got, v))
    # operators at the use sites
    put = facts.body("HashMap::put")
    ev = evaluator(put)
    tre = facts.body("HashMap::treeify_bin")
    TT = facts.const("TREEIFY_THRESHOLD")
    calls = [c for c in put.calls if c.resolved == tre.id and not put.is_cleanup(c.b)]
    if not calls:
        ctx.fail_closed("K5: no call of treeify_bin in put")
    for c in calls:
        low = None
        for kind, lin, bound, blk in facts_at(put, c.point):
            # -x + c0 <= bound  <=>  x >= c0 - bound
            if kind == "le" and len(lin.symbols()) == 1 and lin.coeff(next(iter(lin.symbols()))) == -1:
                lb = lin.c - bound
                low = lb if low is None else max(low, lb)
        ok = low is not None and low >= TT
        ctx.inst("K5", put, "treeify only for an overfull bin", c.span, ok,
                 "treeify_bin is reached only with a bin count >= %s (TREEIFY_THRESHOLD = %s)" % (low, TT) if ok else
                 "treeify_bin (which grows a table shorter than 64) is reached with a bin count that may be as low as %s < TREEIFY_THRESHOLD = %s" % (low, TT))
    ac = facts.body("HashMap::add_count")
    ev = evaluator(ac)
    tr = facts.body("HashMap::transfer")
    sc_loads = find_size_ctl_loads(ac)
    calls = [c for c in ac.calls if c.resolved == tr.id and not ac.is_cleanup(c.b)]
    if not calls:
        ctx.fail_closed("K5: add_count does not call transfer")
    for c in calls:
        ok = False
        seen_sc = False
        for kind, lin, bound, blk in facts_at(ac, c.point):
            if kind != "le":
                continue
            scs = [s0 for s0 in lin.symbols() if s0[0] == "call" and any(l.b == s0[1] for l in sc_loads)]
            others = [s0 for s0 in lin.symbols() if s0 not in scs]
            if len(scs) == 1 and len(others) == 1 and lin.coeff(scs[0]) == 1 and lin.coeff(others[0]) == -1:
                seen_sc = True
                if bound - lin.c == 0:
                    ok = True
        ctx.inst("K5", ac, "resize only at count >= size_ctl", c.span, ok,
                 "the transfer call is dominated by a comparison establishing count >= size_ctl" if ok else
                 ("the comparison of the count with size_ctl that guards this transfer call is not `count >= size_ctl`" if seen_sc else
                  "no comparison of the count with size_ctl dominates this transfer call"))


def rule_k8(ctx, facts):
    """reserve(additional) either hands len() + additional to try_presize or returns only where that sum is seen to be BELOW the growth
    threshold: a resize starts when the count reaches size_ctl, so `absolute <= size_ctl` is not enough room for `additional` more"""
    rs = [b for b in facts.bodies if b.sid.endswith("map::HashMap::reserve")]
    tp = facts.body("HashMap::try_presize")
    if len(rs) != 1:
        ctx.fail_closed("K8: HashMap::reserve not found")
        return
    b = rs[0]
    ev = evaluator(b)
    calls = {c.point for c in b.calls if c.resolved == tp.id and not b.is_cleanup(c.b)}
    if not calls:
        ctx.inst("K8", b, "reserve reaches try_presize", b.span, False, "reserve never calls try_presize")
        return
    absf = [ev.operand(c.args[1]) for c in b.calls if c.resolved == tp.id]
    sc_loads = find_size_ctl_loads(b)
    r = reach(b, [entry(b)], avoid=calls)
    early = [rp for rp in return_points(b) if rp in r]
    if not early:
        ctx.inst("K8", b, "reserve always goes through try_presize", b.span, True, "no return bypasses try_presize")
        return
    for rp in early:
        ok = False
        for kind, lin, bound, blk in facts_at(b, rp):
            if kind != "le":
                continue
            scs = [s0 for s0 in lin.symbols() if s0[0] == "call" and any(l.b == s0[1] for l in sc_loads)]
            if len(scs) != 1 or lin.coeff(scs[0]) != -1:
                continue
            rest = lin + Aff({scs[0]: 1})
            # absolute - size_ctl <= -1
            if any(a is not TOP and rest == a for a in absf) and bound <= -1:
                ok = True
        ctx.inst("K8", b, "early return of reserve", b.span_at(rp), ok,
                 "returns without presizing only where len() + additional < size_ctl" if ok else
                 "reserve returns without calling try_presize on a path where len() + additional is not shown to be below size_ctl: the table "
                 "grows before `additional` further entries are in (growth starts when the count REACHES size_ctl)")


def rule_k6(ctx, facts):
    cg = callgraph(facts)
    wc = facts.body("HashMap::with_capacity_and_hasher")
    presize = facts.body("HashMap::presize")
    ev = evaluator(wc)
    calls = [c for c in wc.calls if c.resolved == presize.id]
    ok = bool(calls) and all(ne0_at(wc, c.point, Aff.sym(("arg", 1))) is not None for c in calls)
    ctx.inst("K6", wc, "presize only when capacity != 0", wc.span, ok,
             "every call of presize is dominated by a comparison establishing capacity != 0" if ok else "with capacity 0 the constructor can reach presize (allocates a table)")
    newt = [b.id for b in facts.bodies if b.sid.endswith("raw::Table::new") or b.sid.endswith("raw::Table::from")]
    for name in ("HashMap::with_hasher", "HashMap::new", "<map::HashMap<K, V, S> as std::default::Default>::default"):
        bs = facts.find(name) or [b for b in facts.bodies if b.id == name]
        for b in bs:
            seen = cg.reachable(b.id)
            hit = [x for x in seen if x in newt]
            ctx.inst("K6", b, "allocates no table", b.span, not hit,
                     "no Table::new reachable" if not hit else "reaches %s via %s" % (hit[0], " -> ".join(x[0] for x in cg.chain(seen, hit[0]))))


def rule_k10(ctx, facts):
    """add_count leaves its resize loop with the count below the threshold, or for a reason that has nothing to do with the count: the
    exits of the loop compare the count with size_ctl only, and none of them depends on the resize hint.  (An insert that may return
    with count >= size_ctl hands the resize to whoever calls add_count next -- for instance a removal.)"""
    from .affine import branch_facts
    from .analysis import back_edges, loop_blocks
    ac = facts.body("HashMap::add_count")
    ev = evaluator(ac)
    fl = flow(ac)
    sc_loads = find_size_ctl_loads(ac)
    cnt_calls = [c for c in ac.calls if is_std_atomic(c) in ("fetch_add", "fetch_sub", "load") and ("map::HashMap", "count") in receiver_field(ac, c, 0)]
    hint_k = [k for k in range(1, ac.nargs + 1) if ac.ty(k).get("s", "").startswith("std::option::Option<usize>")]
    hint_locals = set()
    for k in hint_k:
        hint_locals |= fl.flows_to(k)

    def closure_syms(seed_calls):
        syms = {("call", c.b) for c in seed_calls}
        grew = True
        while grew:
            grew = False
            for l in range(len(ac.locals)):
                if ("phi", l) in syms:
                    continue
                for pt, f in ev.def_forms(l):
                    if f is not TOP and f.symbols() & syms and len(ac.defs.get(l, [])) > 1:
                        syms.add(("phi", l))
                        grew = True
                        break
        return syms
    cnt_syms, sc_syms = closure_syms(cnt_calls), closure_syms(sc_loads)

    def is_hint(sym):
        if sym[0] == "arg":
            return sym[1] in hint_k
        if sym[0] == "phi":
            return sym[1] in hint_locals
        if sym[0] == "place":
            return sym[1] in hint_locals or sym[1] in hint_k
        if sym[0] == "call":
            c = ac.call_at(sym[1])
            return c is not None and c.dst_local() in hint_locals
        return False
    loops = []
    for be in back_edges(ac):
        L = loop_blocks(ac, be)
        if any(c.b in L for c in sc_loads):
            loops.append(L)
    if not loops:
        ctx.fail_closed("K10: the resize loop of add_count (a loop that loads size_ctl) was not found")
        return
    L = max(loops, key=len)
    n = 0
    for blk, tgt, kind, lin, bound in branch_facts(ac):
        if blk not in L or tgt in L or ac.is_cleanup(tgt):
            continue
        syms = lin.symbols()
        hs = [x for x in syms if is_hint(x)]
        cs = [x for x in syms if x in cnt_syms]
        if not hs and not cs:
            continue
        n += 1
        others = [x for x in syms if x not in cnt_syms and x not in sc_syms]
        ok = not hs and not (cs and others)
        ctx.inst("K10", ac, "exit of the resize loop", ac.term(blk)["span"], ok,
                 "the loop is left on count < size_ctl" if ok else
                 ("the resize loop of add_count is left on a condition on the resize hint" if hs else
                  "the resize loop of add_count is left on a comparison of the count with %s instead of size_ctl" % ", ".join(
                      Aff.sym(x).show(ac) for x in others)) +
                 ": an insert can return with the count at or above the threshold, and the next caller of add_count -- a removal included -- "
                 "then grows the table")
    if n < 1:
        ctx.fail_closed("K10: no exit of the resize loop compares the count with size_ctl")


def rule_k11(ctx, facts):
    """the length `put` reports for a list bin is the number of nodes it walked: in the walk loop the counter is incremented only on the
    way to the next node, never on the way to the append -- otherwise a bin is reported one node longer than it was when the new node was
    linked, and the treeify / small-table presize threshold is met one insert early"""
    from .analysis import back_edges, loop_blocks
    from .rules_c05 import put_events
    put = facts.body("map::HashMap::put")
    ev = evaluator(put)
    pc, pe = put_events(facts, put)
    apps = [pt for pt, d in pc.items() if d == "fresh node appended"]
    if not apps:
        ctx.fail_closed("K11: the append of a fresh node in put's list walk was not found")
        return
    n = 0
    from .anchors import is_link_load
    for app in apps:
        # the walk loop: the innermost loop with a Node.next load from whose head the append is reached within one iteration (the append
        # itself leaves the loop, so it is not one of its blocks)
        cands = []
        for be in back_edges(put):
            L = loop_blocks(put, be)
            if not any(c.b in L and is_link_load(c) == "load" and ("node::Node", "next") in receiver_field(put, c, 0) for c in put.calls):
                continue
            fh = reach(put, [Point(be[1], 0)], avoid={put.term_point(be[0])}, unwind=False)
            if app in fh:
                cands.append((be, L, fh))
        if not cands:
            continue
        (tail, head), L, from_head = min(cands, key=lambda x: len(x[1]))
        incs = []
        for l in range(len(put.locals)):
            if put.ty(l).get("s") != "usize" or not put.local_name(l):
                continue
            for pt, f in ev.def_forms(l):
                if pt[0] in L and f is not TOP and f == Aff.sym(("phi", l)) + Aff.const(1):
                    incs.append((l, Point(pt[0], pt[1])))
        for l, ip in incs:
            n += 1
            early = ip in from_head and app in reach(put, after(put, ip), avoid={Point(head, 0)}, unwind=False)
            ctx.inst("K11", put, "`%s` counts the nodes walked" % put.local_name(l), put.span_at(ip), not early,
                     "incremented only on the way to the next node" if not early else
                     "`%s` is incremented at %s on the way to the append at %s: the bin is reported one node longer than it was, and a bin of 7 "
                     "already triggers treeification (or, in a table shorter than 64, a resize)" % (put.local_name(l), put.span_at(ip), put.span_at(app)))
    if n < 1:
        ctx.fail_closed("K11: no counter of the list walk found in put")


def rule_k9(ctx, facts):
    tb = facts.body("HashMap::treeify_bin")
    ac = facts.body("HashMap::add_count")
    for b in facts.bodies:
        for c in b.calls:
            if c.resolved != tb.id or b.is_cleanup(c.b):
                continue
            ev = evaluator(b)
            plus = []
            for x in b.calls:
                if x.resolved == ac.id and not b.is_cleanup(x.b):
                    d = ev.operand(x.args[1])
                    if d is not TOP and d.is_const() and d.c >= 1:
                        plus.append(x)
            ok = bool(plus)
            ctx.inst("K9", b, "treeify_bin caller", c.span, ok,
                     "called by an operation that inserts (add_count(+%s) at %s)" % (ev.operand(plus[0].args[1]).c, plus[0].span) if ok else
                     "%s calls treeify_bin -- which doubles a table shorter than MIN_TREEIFY_CAPACITY -- but never adds an entry to the count: an update or a "
                     "removal can make the table grow" % strip_generics(b.id))


def run(ctx, facts):
    ctx.rule("K1", "the local compared with size_ctl equals the value the count RMW left in memory (affine forms, abs resolved by sign branch)",
             floor=1, floor_note="two on the pinned tree (add_count's Greater and Less branches); one RMW for both signs is as good")
    ctx.rule("K2", "capacity rounding min(2^30, next_power_of_two(1.5c+1)) in both presize siblings; thresholds are 3/4 of the new length",
             floor=6, floor_note="2 roundings + agreement + threshold stores in presize, try_presize, init_table, transfer")
    ctx.rule("K3", "resize initiators, try_presize callers, hint discipline", floor=7)
    ctx.rule("K8", "reserve bypasses try_presize only where len() + additional < size_ctl", floor=1)
    rule_k8(ctx, facts)
    ctx.rule("K7", "reserve(additional) presizes for len() + additional", floor=1)
    ctx.rule("K4", "cap guard before initiating; table pointer only replaced by fresh/doubled tables", floor=5)
    ctx.rule("K5", "constants and comparison operators of the contract", floor=6)
    ctx.rule("K6", "capacity 0 allocates no table", floor=3)
    ctx.rule("K9", "treeify_bin (which grows a table shorter than 64 instead of converting the bin) is called only by an inserting "
                   "operation -- one that adds 1 to the count -- and never by one that can only update or remove", floor=1)
    rule_k9(ctx, facts)
    ctx.rule("K11", "the bin length put reports is the number of nodes walked: the counter is not incremented on the way to the append", floor=1)
    rule_k11(ctx, facts)
    ctx.rule("K10", "add_count leaves its resize loop only with count < size_ctl or for a reason independent of the count and of the "
                    "resize hint", floor=1)
    rule_k10(ctx, facts)
    ctx.rule("K13", "every add_count with a positive delta passes Some(hint) (rule Z17 of C10): the table grows when an insert brings the count "
                    "to three quarters of its length, whichever bin the insert landed in", floor=2)
    from .rules_c10 import rule_z17
    rule_z17(ctx, facts, rule="K13")
    ctx.rule("K12", "the count that add_count compares with the threshold is the number of entries: adjusted exactly once per link / unlink, "
                    "clear hands over everything it removed (rule Q1 of C05) -- a count that drifts upwards doubles a table that is far from full",
             floor=6)
    from .rules_c05 import rule_q1_all
    rule_q1_all(ctx, facts, rule="K12")
    rule_k1(ctx, facts)
    rule_k2(ctx, facts)
    rule_k3_k4(ctx, facts)
    rule_k5(ctx, facts)
    rule_k6(ctx, facts)
