"""C07 -- weakly consistent iterators (clauses).  T1 nullable link tested before dereference (contradiction rule, also M5 of C03) /
T2 old bin lists are never mutated by resize / treeify / untreeify."""
from .analysis import flow, reach, after, Point, cond_of, is_view, value_chains, dominated_by_edge
from .anchors import callee_str, is_link_load, is_shared_write, receiver_field, is_reclaim_atomic, is_fresh_alloc
from .facts import strip_generics, op_root, op_local

PROP = "C07"
LEVEL = "other"
EXPLANATION = (
    "Clauses only. T1 (Engler-style contradiction rule): the crate tests almost every nullable link (Node.next, TreeNode.left/right/"
    "parent/prev, TreeBin.root/first/waiter, Table.next_table, HashMap.table/next_table, bins[i]) for null before dereferencing it; "
    "every dereference (Shared::deref, TreeNode::get_tree_node) of a value loaded from such a link must be preceded, on every path "
    "from the load, by the non-null edge of an is_null test of a copy of it. The four reviewed exceptions are frozen by (function, "
    "field) with their invariant. An iterator (or any reader) therefore cannot fault on a transiently null link. T2: in the bodies "
    "that replace a bin by copies sharing the value pointers (transfer, treeify_bin, untreeify) every store to a node link targets a "
    "node that is private to the body (fresh Shared::boxed / constructor result), and TreeBin::new is only given private lists, so a "
    "reader or iterator standing inside an old list never sees it change. Not decided: exactly-once yield across nested resizes "
    "(index arithmetic over run-time table lengths).")

NULLABLE = {
    ("node::Node", "next"), ("node::TreeNode", "left"), ("node::TreeNode", "right"), ("node::TreeNode", "parent"), ("node::TreeNode", "prev"),
    ("node::TreeBin", "root"), ("node::TreeBin", "first"), ("node::TreeBin", "waiter"), ("raw::Table", "next_table"),
    ("map::HashMap", "table"), ("map::HashMap", "next_table"),
}
NEVER_NULL = {("node::Node", "value"), ("raw::Table", "moved")}

# (function, field) -> invariant that makes the untested dereference safe.  Reviewed by reading; see DESIGN §4 C07.
EXCEPTIONS = {
    ("map::HashMap::transfer", "map::HashMap.next_table"):
        "re-read immediately after this thread swapped a non-null table in; only the finisher of the same resize clears it",
    ("raw::Table::drop_bins", "<element>"):
        "second load of a slot tested two lines above, under &mut self",
}

def moved_edges(body):
    """edges taken when a bin entry was seen to be the forwarding marker: switch on the discriminant of a BinEntry, value = index of Moved"""
    adt = body.facts.adts.get("node::BinEntry")
    if not adt:
        return []
    names = [v["name"] for v in adt["variants"]]
    if "Moved" not in names:
        return []
    mi = names.index("Moved")
    out = []
    for blk in range(len(body.blocks)):
        t = body.term(blk)
        if t["k"] != "switch" or body.blocks[blk]["cleanup"]:
            continue
        l = op_local(t["on"])
        if l is None:
            continue
        for pt, kind, data in body.defs.get(l, []):
            if kind == "assign" and "discr" in data["rv"]:
                pl = data["rv"]["discr"]
                ty = body.ty(pl["local"])
                if "BinEntry" not in ty["s"]:
                    continue
                listed = {int(v): tb for v, tb in t["targets"]}
                if mi in listed:
                    out.append((blk, listed[mi]))
                elif len(listed) == len(names) - 1:
                    out.append((blk, t["otherwise"]))
    return out


def after_moved_marker(facts, b, pt, depth=0):
    """pt executes only after a forwarding marker was read: dominated by a Moved edge in b, or b is a helper all of whose call sites are"""
    me = moved_edges(b)
    if me and dominated_by_edge(b, pt, me):
        return True
    if depth >= 2 or b.exported:
        return False
    from .callgraph import callgraph
    sites = [(cid, via) for cid, via in callgraph(facts).callers(b.id) if hasattr(via, "point")]
    sites = [(cid, via) for cid, via in sites if not facts.by_id[cid].is_cleanup(via.b) and cid != b.id]
    return bool(sites) and all(after_moved_marker(facts, facts.by_id[cid], via.point, depth + 1) for cid, via in sites)


MOVED_INVARIANT = ("a Moved marker was read before this dereference (in this body or at every call site of this helper), and get_moved sets "
                   "next_table before it hands out the marker (rule M6 of C03)")

DEREFS = ("reclaim::Shared::deref", "node::TreeNode::get_tree_node")


def link_of_load(body, c):
    """'adt.field' label for a link load, or None if the load is not of a nullable link"""
    kind = is_link_load(c)
    if kind == "bin":
        return "raw::Table.bins[i]"
    if kind == "next_table":
        return "raw::Table.next_table"
    if kind == "load":
        f = {x for x in receiver_field(body, c, 0) if x[0].split("::")[0] in ("node", "raw", "map", "iter")}
        if not f:
            return "<element>"  # an Atomic that is not a named field of a flurry struct (a slot of the bins array)
        if f & NULLABLE:
            a, n = sorted(f & NULLABLE)[0]
            return "%s.%s" % (a, n)
        return None
    return None


def def_local(body, pt):
    """local wholly defined by executing point pt (None for partial defs / non-defs)"""
    st = body.stmt(pt)
    if st is not None:
        if st["k"] == "assign" and not st["dst"]["proj"]:
            return st["dst"]["local"]
        return None
    t = body.term(pt[0])
    if t["k"] == "call" and not t["dst"]["proj"]:
        return t["dst"]["local"]
    return None


def untested_path(body, chain, goal, tests):
    """Is there a CFG path that executes the chain's definition points in order (the value travelling from holder to holder, no
    holder being overwritten while it carries the value) and reaches `goal` without taking the non-null edge of an is_null test of
    a local that holds the value?   tests: {local: set((block, nonnull_target))}"""
    from collections import deque
    pts = chain
    k = len(pts) - 1
    holders = [def_local(body, p) for p in pts]
    start_pts = after(body, pts[0], label="ret")
    seen = set()
    dq = deque()
    for sp in start_pts:
        seen.add((sp, 0))
        dq.append((sp, 0))
    while dq:
        pt, stage = dq.popleft()
        ns = stage
        if stage < k and pt == pts[stage + 1]:
            ns = stage + 1
        else:
            d = def_local(body, pt)
            if d is not None and d == holders[stage] and pt != pts[stage]:
                continue  # the holder is overwritten: the tracked value is gone on this path
        if pt == goal and ns == k:
            return True
        b, i = pt
        if i < body.nstmts(b):
            nxts = [(Point(b, i + 1), None)]
        else:
            nxts = [(Point(s, 0), (b, s)) for s, lab in body.term_succ(b, False)]
        for nx, edge in nxts:
            if edge is not None:
                blocked = False
                for h in holders[:ns + 1]:
                    if h is not None and edge in tests.get(h, ()):
                        blocked = True
                if blocked:
                    continue
            if (nx, ns) not in seen:
                seen.add((nx, ns))
                dq.append((nx, ns))
    return False


def correlated_nonnull(b, chain, goal, null_edges, tests):
    """`let cap = if p.is_null() { 0 } else { p.deref().len() }; if cap != 0 { p.deref() }`: a local v whose every definition is either a
    constant c0 under the null edge of a test of a holder of the chain, or lies under the non-null edge of such a test, and a dominating
    comparison at the dereference that shows v != c0 -- the dereference is only reached with the pointer tested non-null"""
    from .affine import ne0_at, Aff
    holders = {def_local(b, pt) for pt in chain if not (isinstance(pt, tuple) and pt and pt[0] == "arg")}
    holders.discard(None)
    for h in holders:
        ne, nn = null_edges.get(h), tests.get(h)
        if not ne or not nn:
            continue
        for v in range(1, len(b.locals)):
            ds = [d for d in b.defs.get(v, []) if d[1] in ("assign", "call", "arg")]
            if len(ds) < 2:
                continue
            consts, okv = set(), True
            for pt, kind, data in ds:
                p0 = Point(pt[0], pt[1])
                if kind == "assign" and "use" in data["rv"] and "int" in data["rv"]["use"] and dominated_by_edge(b, p0, list(ne)):
                    consts.add(data["rv"]["use"]["int"])
                elif kind in ("assign", "call") and dominated_by_edge(b, p0, list(nn)):
                    continue
                else:
                    okv = False
                    break
            if not okv or len(consts) != 1:
                continue
            c0 = next(iter(consts))
            if ne0_at(b, goal, Aff.sym(("phi", v)) - Aff.const(c0)) is not None:
                return True
    return False


def rule_t1(ctx, facts):
    n_deref = 0
    for b in facts.bodies:
        fl = flow(b)
        tests = {}
        sentinel_tests = {}
        null_edges = {}
        for blk in range(len(b.blocks)):
            c = cond_of(b, blk)
            if c and c["kind"] == "is_null" and c["arg"] is not None:
                tests.setdefault(c["arg"], set()).add((blk, c["false"]))
                null_edges.setdefault(c["arg"], set()).add((blk, c["true"]))
            elif c and c["kind"] == "is_none" and c.get("arg") is not None:
                # `p.as_ref()` is None exactly when p is null: the Some edge of a test of an Option that derives from the pointer by views
                # only (`if let Some(t) = table.as_ref()`, `table.as_ref().map_or(true, ..)` once expanded) is a non-null test of it
                for h in fl.roots(c["arg"], through_agg=False)[1]:
                    if h != c["arg"] and b.ty(h).get("base") == "reclaim::Shared":
                        tests.setdefault(h, set()).add((blk, c["false"]))
                        null_edges.setdefault(h, set()).add((blk, c["true"]))
            elif c and c["kind"] == "ptr_eq" and c["a"] is not None and c["b"] is not None:
                # T1b sentinel-bounded walk: `cursor != s` where s was copied from the cursor earlier in the same walk (s was
                # dereferenced then, so it is a live node of the list and is met before the null terminator)
                for cur, sen in ((c["a"], c["b"]), (c["b"], c["a"])):
                    if sen in fl.copies_of(cur) and sen != cur:
                        sentinel_tests.setdefault(cur, set()).add((blk, c["false"]))
        # a null test of a single-assignment copy of a holder (a temporary, or the parameter local of an inlined helper such as
        # `is_red(x)`) is a test of the holder's value
        single_copy = {}
        for l in range(len(b.locals)):
            ds = [d for d in b.defs.get(l, []) if d[1] in ("assign", "call", "arg")]
            if len(ds) != 1 or ds[0][1] != "assign" or "use" not in ds[0][2]["rv"]:
                continue
            src = op_local(ds[0][2]["rv"]["use"])
            if src is not None and src != l:
                single_copy[l] = src
        grew = True
        while grew:
            grew = False
            for l, src in single_copy.items():
                for table in (tests, sentinel_tests):
                    if l in table and not table[l] <= table.get(src, set()):
                        table.setdefault(src, set()).update(table[l])
                        grew = True
        for c in b.calls:
            if b.is_cleanup(c.b) or not c.callee:
                continue
            s = callee_str(c)
            if not any(s.endswith(d) for d in DEREFS):
                continue
            x = op_root(c.args[0]) if c.args else None
            if x is None:
                continue
            n_deref += 1
            chains = [ch for ch in value_chains(b, x) if ch and not (isinstance(ch[0], tuple) and ch[0][0] == "arg")]
            done = set()
            for ch in chains:
                ld = b.call_at(ch[0][0])
                if ld is None or ch[0] != ld.point:
                    continue
                lab = link_of_load(b, ld)
                if not lab:
                    continue
                if (ld.b, lab) in done:
                    continue
                merged = {k: set(v) for k, v in tests.items()}
                bad = untested_path(b, ch, c.point, merged)
                how = "dominated by the non-null edge of an is_null test"
                if bad:
                    for k, v in sentinel_tests.items():
                        merged.setdefault(k, set()).update(v)
                    if not untested_path(b, ch, c.point, merged):
                        bad = False
                        how = "sentinel-bounded walk: cursor compared with a sentinel that was copied from the cursor earlier in the same list"
                if bad and correlated_nonnull(b, ch, c.point, null_edges, tests):
                    bad = False
                    how = "a value set to a constant on the null edge is shown to differ from it"
                if not bad:
                    continue
                done.add((ld.b, lab))
                key = (strip_generics(b.id), lab)
                exc = EXCEPTIONS.get(key)
                if exc is None and lab == "raw::Table.next_table" and after_moved_marker(facts, b, c.point):
                    exc = MOVED_INVARIANT
                if exc:
                    ctx.inst("T1", b, "deref of %s" % lab, c.span, True, "reviewed exception: %s" % exc)
                else:
                    ctx.inst("T1", b, "deref of %s" % lab, c.span, False,
                             "value loaded from nullable link %s at %s is dereferenced at %s on a path with no is_null test of it "
                             "(0 other sites of the crate test this kind of link first)" % (lab, ld.span, c.span))
            labs = set()
            for ch in chains:
                ld = b.call_at(ch[0][0])
                if ld is not None and ch[0] == ld.point and link_of_load(b, ld):
                    labs.add(link_of_load(b, ld))
            for lab in labs:
                if not any(i.rule == "T1" and i.loc == c.span and i.what == "deref of %s" % lab and i.fn == b.id and i.config == ctx.config for i in ctx.instances):
                    ctx.inst("T1", b, "deref of %s" % lab, c.span, True, "every value-flow path from the load passes a null test (or a sentinel-bounded walk)")
    ctx.note("T1: %d dereference sites examined" % n_deref)
    tested = {}
    for i in ctx.instances:
        if i.rule == "T1" and i.ok and i.config == ctx.config and not i.detail.startswith("reviewed"):
            tested[i.what] = tested.get(i.what, 0) + 1
    for i in ctx.instances:
        if i.rule == "T1" and not i.ok:
            i.detail = i.detail.replace("(0 other sites", "(%d other sites" % tested.get(i.what, 0))


def fl_target(body, x):
    """`&p` temporaries: the local whose address is taken"""
    fl = flow(body)
    srcs = fl.sources(x)
    if len(srcs) == 1 and srcs[0][0] == "ref" and not srcs[0][1]["proj"]:
        return srcs[0][1]["local"]
    return x


PRIVATE_CTORS = ("reclaim::Shared::boxed", "reclaim::Shared::null", "node::TreeNode::new", "node::Node::new", "node::Node::with_next",
                 "reclaim::Atomic::null", "reclaim::Atomic::from", "convert::From::from")


def private_roots(body, l):
    fl = flow(body)
    roots, _ = fl.roots(l)
    bad = []
    for r in roots:
        if r[0] == "call":
            s = callee_str(body.call_at(r[1]))
            if not any(s.endswith(p) for p in PRIVATE_CTORS) and not is_fresh_alloc(body, body.call_at(r[1])):
                bad.append("%s at %s" % (s, body.call_at(r[1]).span))
        elif r[0] == "arg":
            bad.append("parameter %d" % r[1])
    return bad


def rule_t2(ctx, facts):
    copiers = [b for b in facts.bodies if any(callee_str(c).endswith("clone") and c.callee.get("self_ty", {}).get("base") == "reclaim::Atomic"
                                              for c in b.calls)]
    if len(copiers) < 3:
        ctx.fail_closed("T2: expected the three value-sharing copy routines (transfer, treeify_bin, untreeify), found %d" % len(copiers))
    for b in copiers:
        for c in b.calls:
            if b.is_cleanup(c.b):
                continue
            w = is_shared_write(c)
            if w and w[0] == "reclaim":
                f = receiver_field(b, c, 0)
                if not f or not any(a.startswith("node::") for a, _ in f):
                    continue
                lab = "%s.%s" % sorted(f)[0]
                bad = private_roots(b, op_root(c.args[0]))
                if bad:
                    ctx.inst("T2", b, "%s of %s" % (w[1], lab), c.span, False,
                             "writes a link of a node that is not private to this body (target derives from %s): a reader inside the old "
                             "list would see it change" % "; ".join(bad)[:300])
                else:
                    ctx.inst("T2", b, "%s of %s" % (w[1], lab), c.span, True, "target is a fresh node (Shared::boxed / constructor) of this body")
    # TreeBin::new is only given private lists
    for b in facts.bodies:
        for c in b.calls:
            if callee_str(c).endswith("node::TreeBin::new") and not b.is_cleanup(c.b):
                bad = private_roots(b, op_root(c.args[0]))
                ctx.inst("T2", b, "TreeBin::new(list)", c.span, not bad,
                         "list passed to TreeBin::new is private" if not bad else "TreeBin::new relinks the nodes of a list that derives from %s" % "; ".join(bad)[:300])


def rule_t4(ctx, facts):
    """iterators start at the current table: the table handed to the traverser is loaded from HashMap.table.  Starting at next_table
    during a resize would show only the bins that have already been moved; nothing leads back from there to the old table."""
    TABLE, NEXT = ("map::HashMap", "table"), ("map::HashMap", "next_table")
    n = 0
    for b in facts.bodies:
        fl = flow(b)
        for c in b.calls:
            if b.is_cleanup(c.b) or not callee_str(c).endswith("NodeIter::new") or not c.args:
                continue
            l = op_root(c.args[0])
            if l is None:
                continue
            roots = fl.roots_at(l, c.point)
            calls = [b.call_at(r[1]) for r in roots if r[0] == "call"]
            if not calls:
                continue          # the table comes in as a parameter (tests, wrappers): judged where it is loaded
            n += 1
            bad = [x for x in calls if not (is_reclaim_atomic(x) == "load" and TABLE in receiver_field(b, x, 0))]
            ctx.inst("T4", b, "traversal starts at the current table", c.span, not bad,
                     "the traverser is created on a fresh load of HashMap.table" if not bad else
                     "the traverser can be created on %s (at %s) instead of the current table: an iterator created while a resize is in flight "
                     "misses every entry whose bin has not been moved yet" % (
                         "HashMap.next_table" if NEXT in receiver_field(b, bad[0], 0) else strip_generics(callee_str(bad[0])), bad[0].span))
    if n < 3:
        ctx.fail_closed("T4: expected the three traverser constructions (iter, keys, values), found %d" % n)


def rule_t3(ctx, facts):
    """traverser index provenance: the sibling-bin stride is the length saved in the frame that was pushed for the table in which
    the forwarding marker was found; frames restore exactly what was saved; base stepping uses base_size / base_index"""
    from .affine import evaluator, Aff, TOP, canon_place
    from .analysis import cond_of, dominated_by_edge, flow
    from .facts import op_root

    def body_of(suffix):
        r = [b for b in facts.bodies if b.sid.endswith(suffix) or b.id.endswith(suffix)]
        if len(r) != 1:
            raise __import__("vf.facts", fromlist=["AnchorError"]).AnchorError("traverser anchor %s resolves to %d bodies" % (suffix, len(r)))
        return r[0]
    rs = body_of("NodeIter::recover_state")
    nx = [b for b in facts.bodies if "NodeIter" in b.id and b.name == "next" and b.impl and b.impl.get("trait") == "std::iter::Iterator"][0]
    ps = body_of("NodeIter::push_state")
    P = lambda *f: ("place", 1, tuple(f))
    INDEX, BASE_SIZE, BASE_INDEX, TOPLEN = P("index"), P("base_size"), P("base_index"), P("stack", "0", "length")

    PRE = {}

    def index_assignments(b, depth=0):
        ev = evaluator(b)
        out = []
        for bi, blk in enumerate(b.blocks):
            if blk["cleanup"]:
                continue
            for si, st in enumerate(blk["stmts"]):
                if st["k"] == "assign" and st["dst"]["proj"]:
                    # through `self` or a reborrow of it (an inlined `&mut self` helper writes through its own parameter)
                    root, cf = canon_place(b, st["dst"]) if st["dst"]["local"] != 1 else (1, None)
                    if root != 1:
                        continue
                    fs = list(cf) if cf is not None else [e["name"] for e in st["dst"]["proj"] if isinstance(e, dict) and "field" in e]
                    if fs in (["index"], ["base_index"]):
                        f = ev.operand(st["rv"]["use"]) if "use" in st["rv"] else TOP
                        out.append((fs[0], f, st["span"], (bi, si)))
        # assignments made by a `&mut self` helper called on the same traverser: its forms with the actual arguments substituted
        if depth < 2:
            for c in b.calls:
                tb = facts.by_id.get(c.resolved)
                if tb is None or tb.kind == "Closure" or b.is_cleanup(c.b) or tb.id == b.id or not c.args:
                    continue
                if "NodeIter" not in tb.ty(1)["s"] or not tb.ty(1)["s"].startswith("&mut") or not flow(b).derives_from_arg(op_root(c.args[0]), 1):
                    continue
                for field, f, span, _pt in index_assignments(tb, depth + 1):
                    if field == "index" and classify(tb, f):
                        PRE[(span, (c.b, b.nstmts(c.b)))] = classify(tb, f)
                    if f is not TOP:
                        for k in range(2, tb.nargs + 1):
                            if ("arg", k) in f.symbols():
                                actual = ev.operand(c.args[k - 1])
                                f = f.subst(("arg", k), actual) if actual is not TOP else TOP
                                if f is TOP:
                                    break
                    out.append((field, f, span, (c.b, b.nstmts(c.b))))
        return out

    def classify(b, f):
        if f is TOP:
            return None
        if f == Aff({INDEX: 1, TOPLEN: 1}):
            return "A index + top frame length"
        if f == Aff({INDEX: 1, BASE_SIZE: 1}):
            return "C index + base_size"
        if f == Aff({BASE_INDEX: 1}):
            return "D base_index"
        if len(f.symbols()) == 1 and f.c == 0:
            s0 = next(iter(f.symbols()))
            if s0[0] == "place" and s0[2] == ("index",) and s0[1] != 1 and f.coeff(s0) == 1:
                # popped frame: root local comes from Option::take(&mut self.stack)
                for c in flow(b).call_roots(s0[1]):
                    if c is not None and callee_str(c).endswith("Option::take") and canon_place(b, {"local": op_root(c.args[0]), "proj": []}) == (1, ("stack",)):
                        return "B popped frame index"
        return None
    for b, need in ((rs, {"A", "B", "C", "D"}), (nx, {"C", "D"})):
        seen = set()
        for field, f, span, pt in index_assignments(b):
            if field == "base_index":
                ok = f is not TOP and f == Aff({BASE_INDEX: 1}, 1)
                ctx.inst("T3", b, "base_index step", span, ok, "base_index + 1" if ok else "base_index is set to %s" % (f.show(b) if f is not TOP else "?"))
                continue
            k = classify(b, f) or PRE.get((span, pt))
            if k:
                seen.add(k[0])
            ctx.inst("T3", b, "index := %s" % (k or "?"), span, k is not None,
                     k if k else "the traverser's bin index is set to %s, which is none of: index + saved frame length (sibling bin in the next table), "
                     "the popped frame's index, index + base_size, base_index" % (f.show(b) if f is not TOP else "a non-affine value"))
        miss = need - seen
        ctx.inst("T3", b, "index update kinds", b.span, not miss, "all of %s present" % sorted(need) if not miss else "missing index update kind(s) %s" % sorted(miss))
    # guards in recover_state, whatever their spelling: some branch decides on  index + frame.length < n  (stay in the frame) and some
    # branch on  index >= n  (wrap to the next base bin), with n the function's bound parameter (or the local restored from a frame)
    from .affine import branch_facts
    ev = evaluator(rs)
    g1 = g2 = False

    def is_n(sym):
        return sym == ("arg", 2) or (sym[0] == "phi" and sym[1] == 2)
    for blk, tgt, kind, lin, bound in branch_facts(rs):
        if kind != "le":
            continue
        nsyms = [s0 for s0 in lin.symbols() if is_n(s0)]
        if len(nsyms) != 1:
            continue
        cn = lin.coeff(nsyms[0])
        rest = lin - Aff({nsyms[0]: cn})
        # index + len - n <= -1   (or its negation  n - index - len <= 0)
        if cn == -1 and rest == Aff({INDEX: 1, TOPLEN: 1}) and bound == -1:
            g1 = True
        if cn == 1 and rest == Aff({INDEX: -1, TOPLEN: -1}) and bound == 0:
            g1 = True
        # n - index <= 0   (index >= n), or index - n <= -1 (its negation)
        if cn == 1 and rest == Aff({INDEX: -1}) and bound == 0:
            g2 = True
        if cn == -1 and rest == Aff({INDEX: 1}) and bound == -1:
            g2 = True
    # the assignment taken when the sibling bin is still inside the table must be the frame-length stride
    from .facts import Point
    stay_edges = []
    for blk, tgt, kind, lin, bound in branch_facts(rs):
        if kind != "le":
            continue
        nsyms = [s0 for s0 in lin.symbols() if is_n(s0)]
        if len(nsyms) == 1 and lin.coeff(nsyms[0]) == -1 and (lin - Aff({nsyms[0]: -1})) == Aff({INDEX: 1, TOPLEN: 1}) and bound == -1:
            stay_edges.append((blk, tgt))
    for field, f, span, pt in index_assignments(rs):
        if field == "index" and stay_edges and dominated_by_edge(rs, Point(pt[0], pt[1]), stay_edges):
            k = classify(rs, f) or PRE.get((span, pt))
            ok = bool(k) and k[0] == "A"
            ctx.inst("T3", rs, "sibling-bin stride", span, ok, "advances by the saved frame length" if ok else
                     "when the sibling bin index + frame.length is still inside the table, the index advances by %s instead of the saved "
                     "length of the table the forwarding marker was found in: after two generations of forwarding bins are skipped / "
                     "visited twice" % (f.show(rs) if f is not TOP else "?"))
    ctx.inst("T3", rs, "stay-in-frame test", rs.span, g1, "index + frame.length < n decides between the sibling bin and popping" if g1 else
             "the test `index + frame.length < n` is missing or compares something else")
    ctx.inst("T3", rs, "wrap test", rs.span, g2, "index >= n moves to the next base bin" if g2 else "the wrap test `index >= n` is missing or compares something else")
    # on pop: n := frame.length ; table := frame.table
    okn = False
    for pt, f in ev.def_forms(2):
        if f is not TOP and len(f.symbols()) == 1:
            s0 = next(iter(f.symbols()))
            if s0[0] == "place" and s0[2] == ("length",) and s0[1] != 1:
                okn = True
    ctx.inst("T3", rs, "pop restores n", rs.span, okn, "n := popped frame's length" if okn else "after popping a frame the bound n is not restored from the frame")
    okt = False
    for blk in rs.blocks:
        for st in blk["stmts"]:
            if st["k"] == "assign" and st["dst"]["local"] == 1 and [e["name"] for e in st["dst"]["proj"] if isinstance(e, dict) and "field" in e] == ["table"]:
                l = op_root(st["rv"].get("use", {})) if "use" in st["rv"] else None
                for kind, data, pt in flow(rs).sources(l) if l is not None else []:
                    if kind == "agg" and data["rv"]["agg"].get("variant") == "Some":
                        p0 = data["rv"]["ops"][0].get("copy") or data["rv"]["ops"][0].get("move")
                        if p0 and canon_place(rs, p0)[1][-1:] == ("table",):
                            okt = True
    ctx.inst("T3", rs, "pop restores table", rs.span, okt, "table := popped frame's table" if okt else "after popping a frame the table is not restored from the frame")
    # push_state stores (t, n, i) into the right fields; next() passes (current table, current index, its length)
    # every frame that becomes the top of the stack -- freshly boxed or recycled from `spare` -- has table, index and length set from the
    # arguments on the way: must-pass-through per field, from entry to the store into self.stack
    from .analysis import reach, entry
    fl = flow(ps)
    want = {"table": 2, "index": 3, "length": 4}
    sets = {f: set() for f in want}
    wrong = []

    def from_args(o):
        r = op_root(o)
        return {k for k in range(1, ps.nargs + 1) if r is not None and fl.derives_from_arg(r, k)}
    for bi, blk in enumerate(ps.blocks):
        for si, st in enumerate(blk["stmts"]):
            if st["k"] != "assign":
                continue
            if "agg" in st["rv"] and st["rv"]["agg"].get("adt", "").endswith("TableStack"):
                for nme, o in zip(st["rv"]["agg"]["fields"], st["rv"]["ops"]):
                    if nme in want:
                        (sets[nme].add(Point(bi, si)) if from_args(o) == {want[nme]} else wrong.append((nme, st["span"])))
            else:
                fs = [e for e in st["dst"]["proj"] if isinstance(e, dict) and "field" in e]
                if fs and fs[-1]["of"].endswith("TableStack") and fs[-1]["name"] in want and "use" in st["rv"]:
                    nme = fs[-1]["name"]
                    (sets[nme].add(Point(bi, si)) if from_args(st["rv"]["use"]) == {want[nme]} else wrong.append((nme, st["span"])))
    pushes = []
    for bi, blk in enumerate(ps.blocks):
        if blk["cleanup"]:
            continue
        for si, st in enumerate(blk["stmts"]):
            if st["k"] == "assign" and st["dst"]["proj"] and canon_place(ps, st["dst"]) == (1, ("stack",)):
                pushes.append((Point(bi, si), st["span"]))
    okp = bool(pushes) and not wrong and all(sets[f] for f in want)
    why = "push_state stores its arguments into the wrong frame fields (%s)" % ", ".join("%s at %s" % w for w in wrong) if wrong else \
        ("push_state never stores a frame into self.stack" if not pushes else "")
    for f in want:
        r = reach(ps, [entry(ps)], avoid=sets[f])
        bad = [sp for pt, sp in pushes if pt in r]
        if bad and not why:
            okp = False
            why = ("a frame becomes the top of the stack at %s on a path that never sets its `%s` from the argument: a frame recycled from `spare` keeps "
                   "the %s of an earlier descent, and popping it resumes the walk at the wrong place" % (bad[0], f, f))
    ctx.inst("T3", ps, "frame fields", ps.span, okp, "TableStack { table: t, index: i, length: n } on every path to the push" if okp else why)
    ev = evaluator(nx)
    okc = False
    for c in nx.calls:
        if c.resolved == ps.id and not nx.is_cleanup(c.b):
            fi, fn = ev.operand(c.args[2]), ev.operand(c.args[3])
            tl = op_root(c.args[1])
            len_ok = False
            if fn is not TOP and len(fn.symbols()) == 1:
                s0 = next(iter(fn.symbols()))
                lc = nx.call_at(s0[1]) if s0[0] == "call" else None
                if lc is not None and callee_str(lc).endswith("Table::len") and tl is not None and \
                        (flow(nx).closure_locals(op_root(lc.args[0])) & flow(nx).closure_locals(tl)):
                    len_ok = True
            okc = fi is not TOP and fi == Aff({INDEX: 1}) and len_ok
            ctx.inst("T3", nx, "push_state(t, index, t.len())", c.span, okc, "saves the current table, index and that table's length" if okc else
                     "the frame pushed when descending into a forwarded table does not record (current table, current index, its length)")


def rule_t5(ctx, facts, rule="T5"):
    """the successor of the node yielded last is yielded next: in NodeIter::next, on the non-null edge of the test of the `next` link just
    loaded, every path to a return or to the next bin load wraps (something derived from) that successor in `Some` -- whatever kind of
    entry it is.  A successor that is only yielded when a variant-selective accessor says so ends a tree bin after its first entry."""
    from .analysis import return_points
    nx = [b for b in facts.bodies if b.sid.endswith("NodeIter<'g, K, V> as std::iter::Iterator>::next")
          or (b.name == "next" and "NodeIter" in (b.impl or {}).get("self_head", ""))]
    if len(nx) != 1:
        ctx.fail_closed("%s: NodeIter::next not found" % rule)
        return
    b = nx[0]
    fl = flow(b)
    loads = [c for c in b.calls if is_link_load(c) == "load" and not b.is_cleanup(c.b)
             and receiver_field(b, c, 0) & {("node::Node", "next"), ("node::TreeBin", "first")}]
    if not any(("node::Node", "next") in receiver_field(b, c, 0) for c in loads):
        ctx.fail_closed("%s: NodeIter::next does not load Node.next" % rule)
        return
    rets = set(return_points(b))
    bins = {c.point for c in b.calls if is_link_load(c) == "bin"}

    def somes_of(holders):
        out = set()
        for bi, blk in enumerate(b.blocks):
            for si, st in enumerate(blk["stmts"]):
                if st["k"] == "assign" and "agg" in st["rv"] and st["rv"]["agg"].get("variant") == "Some" and st["rv"]["ops"]:
                    r = op_root(st["rv"]["ops"][0])
                    if r is not None and r in holders:
                        out.add(Point(bi, si))
        return out
    for c in loads:
        N = c.dst_local()
        what = "successor" if ("node::Node", "next") in receiver_field(b, c, 0) else "first node of a tree bin"
        holders = fl.flows_to(N)
        edges = []
        for blk in range(len(b.blocks)):
            cd = cond_of(b, blk)
            if not cd or cd.get("arg") is None:
                continue
            # `!next.is_null()`, or the Some edge of `next.as_ref()` / `Option<&BinEntry>` derived from the link by views only
            if cd["kind"] == "is_null" and (cd["arg"] in fl.copies_of(N) or N in fl.roots(cd["arg"])[1]):
                # the link itself, or the link carried through `Some(..)` / a closure parameter of an expanded combinator
                edges.append((blk, cd["false"]))
            elif cd["kind"] == "is_none" and N in fl.roots(cd["arg"], through_agg=False)[1]:
                edges.append((blk, cd["false"]))
        if not edges:
            ctx.inst(rule, b, "%s yielded" % what, c.span, False, "the %s loaded at %s is never tested for null" % (what, c.span))
            continue
        somes = somes_of(holders)
        starts = [Point(tgt, 0) for _, tgt in edges]
        r = reach(b, starts, avoid=somes, unwind=False)
        lost = [p for p in rets if p in r] + [p for p in bins if p in r]
        ctx.inst(rule, b, "%s yielded" % what, c.span, not lost,
                 "every path from the non-null %s to a return or the next bin wraps it in Some (%d site(s))" % (what, len(somes)) if not lost else
                 "a non-null %s loaded at %s can reach %s without being wrapped in Some: what is yielded next depends on something other than "
                 "the link being non-null (e.g. an accessor that is None for tree nodes), so the rest of a bin is skipped" % (what, c.span, b.span_at(lost[0])))
    # the head of a list bin is yielded: on the `Node` arm of the match on the bin just read
    variants = [v["name"] for v in facts.adts.get("node::BinEntry", {}).get("variants", [])]
    n_heads = 0
    for c in b.calls:
        if is_link_load(c) != "bin" or b.is_cleanup(c.b) or "Node" not in variants:
            continue
        holders = fl.flows_to(c.dst_local())
        somes = somes_of(holders)
        for blk in range(len(b.blocks)):
            t = b.term(blk)
            if t["k"] != "switch":
                continue
            dl = op_local(t["on"])
            isd = False
            for pt, kind, data in b.defs.get(dl, []) if dl is not None else []:
                if kind == "assign" and "discr" in data["rv"] and data["rv"]["discr"]["local"] in holders:
                    ts = b.ty(data["rv"]["discr"]["local"]).get("s", "")
                    if "node::BinEntry" in ts and "Option" not in ts:       # the kind of the entry, not `e.is_some()`
                        isd = True
            if not isd:
                continue
            tg = {int(v): tb for v, tb in t["targets"]}
            arm = tg.get(variants.index("Node"), t["otherwise"])
            n_heads += 1
            r = reach(b, [Point(arm, 0)], avoid=somes, unwind=False)
            lost = [p for p in rets if p in r] + [p for p in bins if p in r]
            ctx.inst(rule, b, "head of a list bin yielded", t["span"], not lost,
                     "the Node arm of the match on the bin wraps the head in Some" if not lost else
                     "the head of a list bin read at %s can reach %s without being yielded" % (c.span, b.span_at(lost[0])))
    if n_heads < 1:
        ctx.fail_closed("%s: no match on the kind of the bin read by NodeIter::next found" % rule)


def run(ctx, facts):
    ctx.rule("T7", "the tallies of transfer's splitting walk count the nodes (rule O11 of C04): a wrong tally re-uses an old tree bin that still holds a node of the other half, and iterators yield that key twice", floor=1)
    from .rules_c04 import rule_split_counters
    rule_split_counters(ctx, facts, rule="T7")
    ctx.rule("T6", "the next pointer of a node being removed is not written: an iterator standing on it still reaches the rest of the bin "
                   "(rule L12 of C01)", floor=3)
    from .rules_c01 import rule_l12
    rule_l12(ctx, facts, rule="T6")
    ctx.rule("T5", "NodeIter::next yields the successor of the last node, the first node of a tree bin and the head of a list bin whenever they are there, whatever kind of entry they are", floor=3)
    rule_t5(ctx, facts)
    ctx.rule("T3", "traverser index provenance: sibling-bin stride = saved length of the table the marker was found in; frames restore what was saved; "
                   "base stepping by base_size / base_index", floor=14)
    rule_t3(ctx, facts)
    ctx.rule("T1", "a value loaded from a nullable link is dereferenced only after the non-null edge of an is_null test (frozen exceptions: 4 keys)",
             floor=60, floor_note="load-then-deref sites across map.rs, node.rs, raw/mod.rs, traverser.rs")
    ctx.rule("T2", "transfer / treeify_bin / untreeify store node links only into private nodes; TreeBin::new only receives private lists",
             floor=10, floor_note="link stores in the three copy routines + 3 TreeBin::new sites")
    ctx.rule("T4", "iterators are created on the current table (a load of HashMap.table), never on next_table", floor=3)
    rule_t4(ctx, facts)
    rule_t1(ctx, facts)
    rule_t2(ctx, facts)
