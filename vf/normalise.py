"""Signature-level refactorings of PRIVATE items are presented to the rules in the vocabulary of the pinned tree.

The rules address parameters of the crate's own functions by position (`store_bin(table, index, value)`), fields and constants by name
(`TableStack.length`, `WRITER`).  A change that reorders the parameters of a private function, renames a private field or a private
constant leaves the behaviour alone; so that it also leaves the verdicts alone, this pass rewrites the fact file before any rule runs:

* a known, non-exported function whose parameters are a permutation of the pinned ones (matched by type, and by name where a type
  repeats) gets its argument locals renumbered into the pinned order, and every call site its arguments permuted alike;
* an ADT whose field types are those of the pinned ADT, in the same order, but with other names, gets the pinned names in every
  projection and aggregate;
* a pinned constant that is missing, while exactly one constant unknown to the pinned tree in the same module has its type and value,
  is made available under the pinned name.

Nothing is guessed: an ambiguous match leaves the facts untouched (and the rules then fail closed or judge what they see).  The pinned
vocabulary is vf/known_items.json (tools/gen_known_functions.py)."""
import json
import os
import re

from .facts import strip_generics

HERE = os.path.dirname(os.path.abspath(__file__))


def known_items():
    p = os.path.join(HERE, "known_items.json")
    if not os.path.exists(p):
        return {"fns": {}, "adts": {}, "consts": {}}
    with open(p) as f:
        return json.load(f)


def _nt(t):
    t = re.sub(r"'[A-Za-z_][A-Za-z0-9_]*", "'_", t or "")
    return re.sub(r"\s+", " ", t).strip()


def _walk_locals(o, m):
    """rewrite every local index (places, index projections, storage statements) through the map m, in place"""
    if isinstance(o, dict):
        for k, v in o.items():
            if k in ("local", "index") and isinstance(v, int):
                if v in m:
                    o[k] = m[v]
            else:
                _walk_locals(v, m)
    elif isinstance(o, list):
        for x in o:
            _walk_locals(x, m)


def permute_params(raw, known, log):
    by_id = {b["id"]: b for b in raw["bodies"]}
    perms = {}
    for b in raw["bodies"]:
        if b["kind"] == "Closure" or b.get("exported"):
            continue
        k = known["fns"].get(strip_generics(b["id"]))
        if not k:
            continue
        P = [(n, _nt(t)) for n, t in k["params"]]
        C = [(b["locals"][i].get("name"), _nt(b["locals"][i]["s"])) for i in range(1, b["args"] + 1)]
        if len(P) != len(C) or [t for _, t in P] == [t for _, t in C]:
            continue      # same order of types (possibly other names): nothing to do
        if sorted(t for _, t in P) != sorted(t for _, t in C):
            continue
        # pinned position j <- current position i: by type, and by name where a type repeats
        pi = [None] * len(P)
        used = set()
        ok = True
        for j, (pn, pt) in enumerate(P):
            cands = [i for i, (cn, ct) in enumerate(C) if ct == pt and i not in used]
            if len(cands) > 1:
                cands = [i for i in cands if pn and C[i][0] == pn]
            if len(cands) != 1:
                ok = False
                break
            pi[j] = cands[0]
            used.add(cands[0])
        if not ok or pi == list(range(len(P))):
            continue
        perms[b["id"]] = pi
        m = {pi[j] + 1: j + 1 for j in range(len(P))}
        _walk_locals(b["blocks"], m)
        _walk_locals(b.get("debug_places", []), m)
        old = list(b["locals"])
        for j in range(len(P)):
            b["locals"][j + 1] = old[pi[j] + 1]
        log.append("parameters of %s presented in the pinned order %s" % (strip_generics(b["id"]), [P[j][0] for j in range(len(P))]))
    if not perms:
        return
    for b in raw["bodies"]:
        for blk in b["blocks"]:
            t = blk["term"]
            if t["k"] != "call" or not t.get("callee"):
                continue
            cid = t["callee"].get("resolved") or t["callee"].get("def")
            pi = perms.get(cid)
            if pi is None or len(t["args"]) != len(pi):
                continue
            t["args"] = [t["args"][pi[j]] for j in range(len(pi))]


def rename_fields(raw, known, log):
    maps = {}
    for adt, pinned in known["adts"].items():
        cur = raw["adts"].get(adt)
        if not cur or len(cur["variants"]) != len(pinned):
            continue
        for (pv, pfields), cv in zip(pinned, cur["variants"]):
            cf = cv["fields"]
            if len(cf) != len(pfields) or [n for n, _ in cf] == [n for n, _ in pfields]:
                continue
            if [_nt(t) for _, t in cf] != [_nt(t) for _, t in pfields]:
                continue
            # same types in the same order: a pure rename (names the pinned ADT already uses elsewhere must keep their position)
            if any(cn != pn and cn in {n for n, _ in pfields} for (cn, _), (pn, _) in zip(cf, pfields)):
                continue
            for (cn, _), (pn, _) in zip(cf, pfields):
                if cn != pn:
                    maps[(adt, cn)] = pn
            cv["fields"] = [[pn, ct] for (pn, _), (_, ct) in zip(pfields, cf)]
    if not maps:
        return
    for (adt, cn), pn in sorted(maps.items()):
        log.append("field %s.%s presented as .%s" % (adt, cn, pn))

    def walk(o):
        if isinstance(o, dict):
            if "field" in o and "name" in o and "of" in o and (o["of"], o["name"]) in maps:
                o["name"] = maps[(o["of"], o["name"])]
            if "agg" in o and isinstance(o["agg"], dict) and "adt" in o["agg"] and "fields" in o["agg"]:
                a = o["agg"]
                a["fields"] = [maps.get((a["adt"], n), n) for n in a["fields"]]
            for v in o.values():
                walk(v)
        elif isinstance(o, list):
            for x in o:
                walk(x)
    for b in raw["bodies"]:
        walk(b["blocks"])
        walk(b.get("debug_places", []))


def alias_consts(raw, known, log):
    cur = raw["consts"]
    for name, (ty, val) in known["consts"].items():
        if name in cur:
            continue
        mod = name.rsplit("::", 1)[0] if "::" in name else ""
        cands = [k for k, v in cur.items() if k not in known["consts"] and v.get("ty") == ty and v.get("value") == val
                 and (k.rsplit("::", 1)[0] if "::" in k else "") == mod]
        if len(cands) == 1:
            cur[name] = dict(cur[cands[0]], alias_of=cands[0])
            log.append("constant %s presented as %s" % (cands[0], name))


def erase_newtypes(raw, known, log):
    """a private single-field struct that the pinned tree does not have (`struct NodeHash(u64)`, `struct LockState(i64)`) is a name for
    its field: projections into it are dropped, building it is a copy, and locals of that type have the field's type"""
    new = {}
    droppers = set()
    imps = raw.get("impls", {})
    for io in (imps.values() if isinstance(imps, dict) else imps):
        if isinstance(io, dict) and str(io.get("trait", "")).endswith("ops::Drop"):
            droppers.add(io.get("self_head"))
    for b in raw["bodies"]:
        if (b.get("impl") or {}).get("trait", "").endswith("ops::Drop"):
            droppers.add(b["impl"].get("self_head"))
    for adt, d in raw["adts"].items():
        if adt in known["adts"] or d.get("kind") != "struct" or len(d["variants"]) != 1 or len(d["variants"][0]["fields"]) != 1:
            continue
        if adt.startswith(("std::", "core::", "alloc::")):
            continue
        if adt in droppers:
            continue          # a type with its own Drop is more than a name for its field (an RAII handle)
        new[adt] = d["variants"][0]["fields"][0][1]
    if not new:
        return
    used = set()

    def fix_place(pl):
        pr = pl.get("proj")
        if not pr:
            return
        out = [e for e in pr if not (isinstance(e, dict) and "field" in e and e.get("of") in new)]
        if len(out) != len(pr):
            used.update(e["of"] for e in pr if isinstance(e, dict) and e.get("of") in new)
            pl["proj"] = out

    def walk(o):
        if isinstance(o, dict):
            if "local" in o and "proj" in o:
                fix_place(o)
            if "agg" in o and isinstance(o["agg"], dict) and o["agg"].get("adt") in new and len(o.get("ops", [])) == 1:
                used.add(o["agg"]["adt"])
                op = o["ops"][0]
                del o["agg"]
                del o["ops"]
                o["use"] = op
            for v in list(o.values()):
                walk(v)
        elif isinstance(o, list):
            for x in o:
                walk(x)
    for b in raw["bodies"]:
        walk(b["blocks"])
        walk(b.get("debug_places", []))
        for i, l in enumerate(b["locals"]):
            base = l.get("base")
            if base in new and l.get("refs", 0) == 0:
                ft = new[base]
                nm = l.get("name")
                b["locals"][i] = {"s": ft, "head": ft, "base": ft, "refs": 0}
                if nm:
                    b["locals"][i]["name"] = nm
    for a in sorted(used):
        log.append("private newtype %s presented as its field (%s)" % (a, new[a]))


def normalise(raw):
    known = known_items()
    log = []
    for f in (permute_params, rename_fields, alias_consts, erase_newtypes):
        try:
            f(raw, known, log)
        except Exception as e:      # a normalisation that cannot be applied leaves the facts as they are
            log.append("%s not applied: %r" % (f.__name__, e))
    raw["normalised"] = log
    return log
