"""C16 -- borrowed results cannot outlive the guard or the map (compile time).
S1 signature rule over every exported method / S2 no 'static requirement / S3 compile-fail witnesses with compiling twins."""
import re

from .facts import strip_generics
from .witness import Witness, run_all

PROP = "C16"
LEVEL = "proof"
NEEDS_DEPS = True
EXPLANATION = (
    "The property is a statement about types, so it is decided on types, for all client programs at once. S1: for every exported method "
    "of HashMap/HashSet/HashMapRef/HashSetRef whose return type carries a lifetime, that lifetime is the single named lifetime shared by "
    "`&self` and (when there is one) the `&Guard` parameter; for the pinned-reference types it is the lifetime of `&self`, not the "
    "struct's own parameter (which would outlive the guard the wrapper owns). S2: no where-clause of an exported item requires K, V, Q, T "
    "or S to be 'static. S3: for each such method a generated client program that uses the result after drop(guard), after "
    "guard.refresh(), and after drop(collection) must be rejected by rustc with a borrow-check error code and nothing else, and the "
    "twin without the offending line must compile (so a witness cannot pass merely because it is ill-formed); programs with "
    "non-'static keys, values and lookup keys must compile. Obligations = S1/S2 instances + witness programs; each is discharged by the "
    "signature check or by rustc's borrow checker.")

FACADES = ("map::HashMap", "set::HashSet", "map_ref::HashMapRef", "set_ref::HashSetRef")


def split_top(s, sep=","):
    out, depth, cur = [], 0, ""
    i = 0
    while i < len(s):
        ch = s[i]
        if ch in "<([":
            depth += 1
        elif ch in ">)]" and not (ch == ">" and i > 0 and s[i - 1] == "-"):
            depth -= 1
        if ch == sep and depth == 0:
            out.append(cur.strip())
            cur = ""
        else:
            cur += ch
        i += 1
    if cur.strip():
        out.append(cur.strip())
    return out


def parse_sig(sig):
    s = sig
    m = re.match(r"^for<[^>]*>\s*", s)
    if m:
        s = s[m.end():]
    s = re.sub(r"^(unsafe\s+)?(extern \"[^\"]*\"\s+)?fn", "fn", s)
    assert s.startswith("fn("), sig
    depth = 0
    for i, ch in enumerate(s):
        if ch == "(":
            depth += 1
        elif ch == ")":
            depth -= 1
            if depth == 0:
                break
    inputs = split_top(s[3:i])
    rest = s[i + 1:].strip()
    out = rest[2:].strip() if rest.startswith("->") else "()"
    return inputs, out


LT = re.compile(r"'[A-Za-z_][A-Za-z0-9_]*")


def strip_projections(t):
    """`&'a <HashMapRef<'_, K, V, S> as Index<&Q>>::Output` -> `&'a _`: the lifetimes written inside a qualified path are those of the
    impl header it names, not lifetimes of the value (`-> &Self::Output` for `-> &V`); what the projection stands for is decided by the
    witness programs"""
    out = []
    i = 0
    while i < len(t):
        if t[i] == "<" and (i == 0 or not (t[i - 1].isalnum() or t[i - 1] in "_:")):
            depth = 0
            j = i
            while j < len(t):
                if t[j] == "<":
                    depth += 1
                elif t[j] == ">" and t[j - 1] != "-":
                    depth -= 1
                    if depth == 0:
                        break
                j += 1
            m = re.match(r">::[A-Za-z_][A-Za-z0-9_]*", t[j:]) if j < len(t) else None
            if m and " as " in t[i:j]:
                out.append("_")
                i = j + m.end()
                continue
        out.append(t[i])
        i += 1
    return "".join(out)


def lifetimes(t):
    t = re.sub(r"dyn [^>)]*\+ 'static", "dyn _", t)
    t = strip_projections(t)
    return [x for x in LT.findall(t)]


def outer_ref_lifetime(t):
    m = re.match(r"^&(\'[A-Za-z_][A-Za-z0-9_]*)\s+(mut\s+)?", t)
    return m.group(1) if m else None


def facade_of(b):
    if not b.impl:
        return None
    h = b.impl["self_head"]
    while h.startswith("&"):
        h = h[1:].replace("mut ", "")
    return h if h in FACADES else None


def candidates(facts):
    out = []
    for b in facts.bodies:
        if b.kind == "Closure" or not b.exported or not b.sig:
            continue
        fac = facade_of(b)
        if not fac:
            continue
        try:
            ins, ret = parse_sig(b.sig)
        except AssertionError:
            continue
        if not LT.findall(ret):
            continue
        if not ins or not ins[0].startswith("&") or not any(f.split("::")[-1] in ins[0] for f in FACADES):
            continue  # not a method on a borrowed collection (constructors, deserialize)
        out.append((b, fac, ins, ret))
    return out


# ------------------------------------------------------------------------------------------------ witness synthesis

def closure_shape(preds):
    """a closure literal fitting `F: Fn*(A1, .., An)` with `Output == R` as stated in the method's predicates (String keys/values)"""
    args = out = None
    for p_ in preds:
        m = re.search(r"\bF: (?:std::ops::)?Fn(?:Once|Mut)?\((.*)\)\s*$", p_)
        if m:
            inner = m.group(1).strip()
            args = [x.strip() for x in _split_args(inner)] if inner else []
        m = re.search(r"<F as std::ops::FnOnce<.*>>::Output == (.*)$", p_)
        if m:
            out = m.group(1).strip()
    if args is None:
        return None
    names = ["_a%d" % i for i in range(len(args))]
    last_v = None
    for nme, a in zip(names, args):
        if re.search(r"&('\w+ )?V$", a):
            last_v = nme
    body = None
    if out in (None, "()"):
        body = "()"
    elif out == "bool":
        body = "true"
    elif out == "V":
        body = "%s.clone()" % last_v if last_v else 'String::from("v")'
    elif out == "std::option::Option<V>":
        body = "Some(%s.clone())" % last_v if last_v else "None"
    if body is None:
        return None
    return "|%s| %s" % (", ".join(names), body)


def _split_args(s_):
    out, depth, cur = [], 0, ""
    for ch in s_:
        if ch in "(<[":
            depth += 1
        elif ch in ")>]":
            depth -= 1
        if ch == "," and depth == 0:
            out.append(cur)
            cur = ""
        else:
            cur += ch
    if cur.strip():
        out.append(cur)
    return out


def arg_for(ty, method, preds=None):
    t = ty.strip()
    if re.match(r"^&'?\w*\s*seize::Guard<", t) or "seize::Guard<" in t and t.startswith("&"):
        return "&guard"
    if re.match(r"^&('\w+\s+)?Q$", t):
        return '"k"'
    if t in ("K", "T"):
        return 'String::from("k")'
    if t == "V":
        return 'String::from("v")'
    if t == "F":
        shape = closure_shape(preds or [])
        if shape is not None:
            return shape
        if method == "compute_if_present":
            return "|_k, v| Some(v.clone())"
        return "|_k, _v| true"
    if t == "usize":
        return "1"
    return None


PRELUDE = """#![allow(unused)]
fn consume<T>(_t: T) {}
fn main() {
"""


def program(fac, b, ins, offending, use_result=True, item=False):
    """source of one witness; `offending` is the line inserted between obtaining and using the result (None for the twin)"""
    lines = [PRELUDE]
    lines.append("    let collector = seize::Collector::new();")
    lines.append("    let mut guard = collector.enter();")
    if fac in ("map::HashMap", "map_ref::HashMapRef"):
        lines.append("    let coll: flurry::HashMap<String, String> = flurry::HashMap::new();")
    else:
        lines.append("    let coll: flurry::HashSet<String> = flurry::HashSet::new();")
    recv = "coll"
    if fac in ("map_ref::HashMapRef", "set_ref::HashSetRef"):
        lines.append("    let mut pinned = coll.pin();")
        recv = "pinned"
    args = []
    for t in ins[1:]:
        a = arg_for(t, b.name, b.predicates)
        if a is None:
            return None
        args.append(a)
    tr = (b.impl or {}).get("trait")
    if tr == "std::ops::Index":
        call = "&%s[%s]" % (recv, args[0])
    elif tr == "std::iter::IntoIterator":
        call = "(&%s).into_iter()" % recv
    elif tr == "std::clone::Clone":
        call = "%s.clone()" % recv
    elif tr:
        return None
    else:
        call = "%s.%s(%s)" % (recv, b.name, ", ".join(args))
    lines.append("    let r = %s;" % call)
    if item:
        lines.append("    let mut r = r;")
        lines.append("    let r = r.next();")
    if offending:
        lines.append("    " + offending)
    lines.append("    consume(r);")
    lines.append("}")
    return "\n".join(lines) + "\n"


def safe(s):
    return re.sub(r"[^A-Za-z0-9]+", "_", s).strip("_")[:80]


def run(ctx, facts, deps=None, work=None, repo=None):
    ctx.rule("S1", "every lifetime in the return type of an exported facade method is the one shared by &self and the &Guard parameter "
                   "(pinned references: the lifetime of &self)", floor=30, floor_note="38 borrowing methods on the pinned tree")
    ctx.rule("S2", "no exported item requires K, V, Q, T or S to outlive 'static", floor=1)
    ctx.rule("S3", "witness programs: use after drop(guard) / guard.refresh() / drop(collection) is a borrow error; the twin compiles",
             floor=100, floor_note="~38 methods x up to 3 offences x 2 + positives")
    cands = candidates(facts)
    wit = []
    for b, fac, ins, ret in cands:
        self_lt = outer_ref_lifetime(ins[0]) if ins else None
        guard_lts = [outer_ref_lifetime(t) for t in ins[1:] if "seize::Guard<" in t and t.startswith("&")]
        out_lts = set(lifetimes(ret))
        tr = (b.impl or {}).get("trait")
        what = "return type %s" % ret[:90]
        if "as std::iter::IntoIterator>" in ret or "as std::iter::Iterator>" in ret:
            ctx.inst("S1", b, what, b.span, True, "associated-type projection; decided by its witness programs", nontrivial=False)
        elif tr == "std::clone::Clone":
            ctx.inst("S1", b, what, b.span, True, "clone of a pinned reference pins a fresh guard of the same map ('map lifetime)", nontrivial=False)
        else:
            problems = []
            if self_lt is None:
                problems.append("receiver is not a reference with a named lifetime")
            for lt in out_lts:
                if lt != self_lt:
                    problems.append("result lifetime %s is not the lifetime %s of &self" % (lt, self_lt))
                for g in guard_lts:
                    if lt != g:
                        problems.append("result lifetime %s is not the lifetime %s of the &Guard parameter" % (lt, g))
            if "'static" in out_lts:
                problems.append("result is 'static")
            ctx.inst("S1", b, what, b.span, not problems, "lifetimes %s all equal &self%s" % (sorted(out_lts), " and &Guard" if guard_lts else "")
                     if not problems else "; ".join(problems))
        # witnesses
        has_guard = bool(guard_lts)
        offences = []
        if has_guard:
            offences += [("drop_guard", "drop(guard);"), ("refresh_guard", "guard.refresh();")]
        if tr == "std::clone::Clone":
            offences += [("drop_collection", "drop(coll);")]   # the clone pins its own guard; it is tied to the collection only
        elif fac in ("map_ref::HashMapRef", "set_ref::HashSetRef"):
            offences += [("drop_pinned", "drop(pinned);"), ("drop_collection", "drop(coll);")]
        else:
            offences += [("drop_collection", "drop(coll);")]
        base = "%s_%s" % (safe(fac.split("::")[-1]), safe(b.name if not tr else tr.split("::")[-1] + "_" + b.name))
        twin_src = program(fac, b, ins, None)
        if twin_src is None:
            ctx.inst("S3", b, "witness synthesis", b.span, True, "no witness synthesised for this signature (parameter kind unknown); S1 decides", nontrivial=False)
            continue
        wit.append((b, Witness(base + "__twin", twin_src, "pass", "twin of %s" % b.name)))
        for oname, line in offences:
            wit.append((b, Witness(base + "__" + oname, program(fac, b, ins, line), "borrow", "%s then use the result of %s" % (line, b.name))))
        if ret.startswith("iter::"):
            wit.append((b, Witness(base + "__item_twin", program(fac, b, ins, None, item=True), "pass", "item twin")))
            for oname, line in offences:
                wit.append((b, Witness(base + "__item_" + oname, program(fac, b, ins, line, item=True), "borrow", "%s then use an item yielded by %s" % (line, b.name))))
    # positives: non-'static keys, values and lookup keys
    pos = PRELUDE + """    let owner = String::from("key");
    let other = String::from("key");
    {
        let map: flurry::HashMap<&str, &str> = flurry::HashMap::new();
        let guard = map.guard();
        map.insert(&owner[..], &owner[..], &guard);
        let q: &str = &other[..];
        consume(map.get(q, &guard));
        consume(map.pin().get(q).is_some());
        let set: flurry::HashSet<&str> = flurry::HashSet::new();
        set.pin().insert(&owner[..]);
        consume(set.pin().contains(q));
    }
}
"""
    wit.append((None, Witness("positive_non_static", pos, "pass", "keys, values and lookup keys borrowed from locals")))
    if deps is None:
        ctx.fail_closed("S3: dependency directory of the build is not available")
        results = []
    else:
        results = run_all([w for _, w in wit], deps, work)
    twins_ok = {}
    for (b, w) in wit:
        if w.name.endswith("__twin") or w.name.endswith("__item_twin"):
            twins_ok[w.name.rsplit("__", 1)[0] + ("__item" if "__item_" in w.name else "")] = w.ok
    for (b, w) in wit:
        fn = b if b is not None else "witness::positive"
        if w.ok is None:
            ctx.inst("S3", fn, w.name, getattr(b, "span", "witness"), True, "INCONCLUSIVE: " + w.verdict, nontrivial=False)
            ctx.fail_closed("witness %s %s" % (w.name, w.verdict))
            continue
        if w.expect == "borrow":
            key = w.name.split("__")[0] + ("__item" if "__item_" in w.name else "")
            if twins_ok.get(key) is False:
                continue  # reported through the twin
        ctx.inst("S3", fn, w.name, getattr(b, "span", "witness"), w.ok,
                 ("%s: %s" % (w.what, w.verdict)) if w.ok else
                 ("%s: %s -- a client program can use the result after the guard/collection is gone" % (w.what, w.verdict) if w.expect == "borrow"
                  else "%s: %s" % (w.what, w.verdict)))
    # S2
    n = 0
    bad = []
    for b in facts.bodies:
        if b.exported:
            for p in b.predicates:
                n += 1
                if re.search(r"\b(K|V|Q|T|S): 'static", p):
                    bad.append((b, p))
    for im in facts.impls:
        for p in im.get("predicates", []):
            if re.search(r"\b(K|V|Q|T|S): 'static", p) and any(f in im["self"] for f in ("HashMap", "HashSet", "Iter", "Keys", "Values")):
                bad.append((im["self"], p))
    if bad:
        for b, p in bad[:5]:
            ctx.inst("S2", b, "'static bound", getattr(b, "span", "impl"), False, "requires %s" % p)
    else:
        ctx.inst("S2", "crate", "no 'static bounds", "src/lib.rs", True, "%d predicates of exported items scanned" % n)
    ctx.extra["checker_cmd"] = "rustc +nightly --edition 2021 --emit=metadata --error-format=json --extern flurry=<rmeta of /repo built in this run> <witness>.rs"
    ctx.extra["witness_programs"] = len(wit)
