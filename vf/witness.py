"""Compile-fail / compile-pass witness programs judged by rustc (DESIGN §2.1 E3)."""
import concurrent.futures
import glob
import json
import os
import subprocess

from .extract import nightly_env

BORROW_CODES = {"E0505", "E0502", "E0499", "E0597", "E0716", "E0506", "E0713", "E0503", "E0515", "E0521", "E0373", "E0712"}
BOUND_CODES = {"E0277", "E0599"}


def externs(deps, names=("flurry", "seize", "rayon", "serde", "serde_json")):
    out = []
    for n in names:
        c = sorted(glob.glob(os.path.join(deps, "lib%s-*.rmeta" % n)))
        if c:
            out += ["--extern", "%s=%s" % (n, c[0])]
    return out


def compile_one(src_path, deps, out_dir):
    cmd = ["rustc", "+nightly", "--edition", "2021", "--crate-type", "bin", "--emit=metadata", "--error-format=json",
           "--cap-lints", "allow", "-L", "dependency=%s" % deps, "--out-dir", out_dir] + externs(deps) + [src_path]
    p = subprocess.run(cmd, env=nightly_env(), stdout=subprocess.PIPE, stderr=subprocess.PIPE, text=True)
    codes = []
    msgs = []
    for line in p.stderr.splitlines():
        if not line.startswith("{"):
            continue
        try:
            d = json.loads(line)
        except ValueError:
            continue
        if d.get("level") == "error":
            c = (d.get("code") or {}).get("code")
            if c:
                codes.append(c)
            msgs.append(d.get("message", ""))
    return p.returncode == 0, codes, msgs


class Witness:
    def __init__(self, name, src, expect, what):
        self.name = name          # unique, file-system safe
        self.src = src
        self.expect = expect      # "pass" | "borrow" | "bound"
        self.what = what
        self.ok = None
        self.codes = []
        self.msgs = []
        self.verdict = ""

    def judge(self, compiled, codes, msgs):
        self.codes, self.msgs = codes, msgs
        if self.expect == "pass":
            self.ok = compiled
            self.verdict = "compiles" if compiled else "does not compile: %s %s" % (codes, msgs[:1])
            return
        want = BORROW_CODES if self.expect == "borrow" else BOUND_CODES
        if compiled:
            self.ok = False
            self.verdict = "ACCEPTED by the compiler (expected a %s error)" % self.expect
        elif codes and all(c in want for c in set(codes)):
            self.ok = True
            self.verdict = "rejected with %s" % ",".join(sorted(set(codes)))
        else:
            self.ok = None   # inconclusive: failed for another reason
            self.verdict = "failed for an unexpected reason: %s %s" % (sorted(set(codes)), msgs[:1])


def run_all(witnesses, deps, work, jobs=16):
    d = os.path.join(work, "witness")
    os.makedirs(d, exist_ok=True)

    def one(w):
        p = os.path.join(d, w.name + ".rs")
        with open(p, "w") as f:
            f.write(w.src)
        o = os.path.join(d, w.name + ".out")
        os.makedirs(o, exist_ok=True)
        w.judge(*compile_one(p, deps, o))
        return w
    with concurrent.futures.ThreadPoolExecutor(max_workers=jobs) as ex:
        return list(ex.map(one, witnesses))
