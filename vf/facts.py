"""Fact-file model: bodies, points, calls, def-use.  Pure stdlib."""
import json
import re
from collections import defaultdict


class Point(tuple):
    """(block, index); index == len(stmts) is the terminator."""
    __slots__ = ()

    def __new__(cls, b, i):
        return tuple.__new__(cls, (b, i))

    @property
    def b(self):
        return self[0]

    @property
    def i(self):
        return self[1]


def place_local(p):
    return p["local"]


def place_is_local(p):
    return not p["proj"]


def place_fields(p):
    """names of the field projections, in order (derefs / downcasts dropped)."""
    out = []
    for e in p["proj"]:
        if isinstance(e, dict) and "field" in e:
            out.append((e["of"], e["name"]))
    return out


def place_str(p, body=None):
    s = "_%d" % p["local"]
    if body is not None:
        n = body.locals[p["local"]].get("name")
        if n:
            s = "%s/_%d" % (n, p["local"])
    for e in p["proj"]:
        if e == "deref":
            s = "(*%s)" % s
        elif isinstance(e, dict) and "field" in e:
            s = "%s.%s" % (s, e["name"])
        elif isinstance(e, dict) and "downcast" in e:
            s = "(%s as %s)" % (s, e["downcast"])
        elif isinstance(e, dict) and "index" in e:
            s = "%s[_%d]" % (s, e["index"])
        else:
            s = "%s.%s" % (s, e)
    return s


def op_place(op):
    if "copy" in op:
        return op["copy"]
    if "move" in op:
        return op["move"]
    return None


def op_local(op):
    """local if the operand is a bare local (copy or move), else None"""
    p = op_place(op)
    if p is not None and not p["proj"]:
        return p["local"]
    return None


def op_root(op):
    """root local of the operand's place (any projection), else None"""
    p = op_place(op)
    return p["local"] if p is not None else None


def op_int(op):
    return op.get("int") if "const" in op else None


def op_str(op, body=None):
    if "copy" in op:
        return place_str(op["copy"], body)
    if "move" in op:
        return "move " + place_str(op["move"], body)
    if "const" in op:
        if "fn" in op:
            return "fn " + op["fn"]["path"]
        return "const " + op["const"]
    return json.dumps(op)


class Call:
    """a call terminator"""
    __slots__ = ("body", "b", "term", "callee", "args", "dst", "target", "unwind", "span")

    def __init__(self, body, b, term):
        self.body = body
        self.b = b
        self.term = term
        self.callee = term.get("callee")
        self.args = term["args"]
        self.dst = term["dst"]
        self.target = term["target"]
        self.unwind = term["unwind"]
        self.span = term["span"]

    @property
    def point(self):
        return Point(self.b, len(self.body.blocks[self.b]["stmts"]))

    @property
    def def_(self):
        return self.callee["def"] if self.callee else None

    @property
    def path(self):
        return self.callee["path"] if self.callee else None

    @property
    def name(self):
        return self.callee["name"] if self.callee else None

    @property
    def kind(self):
        return self.callee["kind"] if self.callee else "indirect"

    @property
    def resolved(self):
        """def path of the function that actually runs, when known"""
        if not self.callee:
            return None
        return self.callee.get("resolved") or self.callee["def"]

    @property
    def macro(self):
        return self.term.get("macro", [])

    def arg_local(self, k):
        if k < len(self.args):
            return op_local(self.args[k])
        return None

    def dst_local(self):
        return self.dst["local"] if not self.dst["proj"] else None

    def is_(self, *suffixes):
        d = self.resolved or ""
        d0 = self.def_ or ""
        for s in suffixes:
            if _match_fn(d, s) or _match_fn(d0, s):
                return True
        return False

    def __repr__(self):
        return "<call %s @%s bb%d>" % (self.path, self.span, self.b)


_GENERIC = re.compile(r"::<[^<>]*(?:<[^<>]*(?:<[^<>]*>[^<>]*)*>[^<>]*)*>")


def strip_generics(path):
    """`map::HashMap::<K, V, S>::put` -> `map::HashMap::put`; `<T as Tr>::m` kept readable"""
    if "::<impl " in path:
        # `map_ref::<impl PartialEq<HashMapRef<..>> for HashMap<K, V, S>>::eq`: keep the impl header (it is the identity)
        i = path.index("::<impl ")
        depth = 0
        j = i + 2
        while j < len(path):
            if path[j] == "<":
                depth += 1
            elif path[j] == ">" and path[j - 1] != "-":
                depth -= 1
                if depth == 0:
                    break
            j += 1
        return strip_generics(path[:i]) + path[i:j + 1] + strip_generics(path[j + 1:])
    prev = None
    s = path
    while prev != s:
        prev = s
        s = _GENERIC.sub("", s)
    return s


def _match_fn(defpath, pattern):
    """pattern like 'Mutex::lock' or 'reclaim::Atomic::load': match on generic-stripped suffix"""
    s = strip_generics(defpath)
    if s == pattern:
        return True
    return s.endswith("::" + pattern)


class Body:
    def __init__(self, raw, facts):
        self.raw = raw
        self.facts = facts
        self.id = raw["id"]
        self.sid = strip_generics(self.id)
        self.kind = raw["kind"]
        self.name = raw.get("name") or self.id.rsplit("::", 1)[-1]
        self.span = raw["span"]
        self.nargs = raw["args"]
        self.locals = raw["locals"]
        self.blocks = raw["blocks"]
        self.exported = raw.get("exported", False)
        self.reachable_pub = raw.get("reachable", False)
        self.vis = raw.get("vis", "")
        self.impl = raw.get("impl")
        self.parent = raw.get("parent")
        self.predicates = raw.get("predicates", [])
        self.sig = raw.get("sig", "")
        self._calls = None
        self._defs = None
        self._preds = {}
        self._succs = {}

    # ---- structure -------------------------------------------------------------------
    def nstmts(self, b):
        return len(self.blocks[b]["stmts"])

    def term(self, b):
        return self.blocks[b]["term"]

    def term_point(self, b):
        return Point(b, self.nstmts(b))

    def is_cleanup(self, b):
        return self.blocks[b]["cleanup"]

    def term_succ(self, b, unwind=True):
        """list of (succ_block, label) ; label in {'goto','ret','unwind','otherwise', value...}"""
        t = self.term(b)
        k = t["k"]
        out = []
        if k == "goto":
            out.append((t["target"], "goto"))
        elif k == "switch":
            for v, tb in t["targets"]:
                out.append((tb, v))
            out.append((t["otherwise"], "otherwise"))
        elif k in ("drop", "assert"):
            out.append((t["target"], "ret"))
            if unwind and isinstance(t["unwind"], int):
                out.append((t["unwind"], "unwind"))
        elif k == "call":
            if t["target"] is not None:
                out.append((t["target"], "ret"))
            if unwind and isinstance(t["unwind"], int):
                out.append((t["unwind"], "unwind"))
        elif k == "other":
            for s in t.get("succ", []):
                out.append((s, "other"))
        return out

    def succ(self, b, unwind=True):
        key = (b, unwind)
        r = self._succs.get(key)
        if r is None:
            r = []
            for s, _ in self.term_succ(b, unwind):
                if s not in r:
                    r.append(s)
            self._succs[key] = r
        return r

    def preds(self, unwind=True):
        r = self._preds.get(unwind)
        if r is None:
            r = defaultdict(list)
            for b in range(len(self.blocks)):
                for s in self.succ(b, unwind):
                    r[s].append(b)
            self._preds[unwind] = r
        return r

    def points(self):
        for b, blk in enumerate(self.blocks):
            for i in range(len(blk["stmts"]) + 1):
                yield Point(b, i)

    def stmt(self, pt):
        b, i = pt
        st = self.blocks[b]["stmts"]
        if i < len(st):
            return st[i]
        return None

    def span_at(self, pt):
        s = self.stmt(pt)
        if s is not None:
            return s.get("span", self.term(pt[0])["span"])
        return self.term(pt[0])["span"]

    # ---- calls -----------------------------------------------------------------------
    @property
    def calls(self):
        if self._calls is None:
            self._calls = []
            for b, blk in enumerate(self.blocks):
                if blk["term"]["k"] == "call":
                    self._calls.append(Call(self, b, blk["term"]))
        return self._calls

    def call_at(self, b):
        t = self.term(b)
        if t["k"] == "call":
            return Call(self, b, t)
        return None

    def calls_to(self, *suffixes, cleanup=None):
        out = []
        for c in self.calls:
            if cleanup is not None and self.is_cleanup(c.b) != cleanup:
                continue
            if c.callee and c.is_(*suffixes):
                out.append(c)
        return out

    # ---- def/use ---------------------------------------------------------------------
    @property
    def defs(self):
        """local -> list of (Point, kind, data): kind in assign|call|arg ; partial defs flagged"""
        if self._defs is None:
            d = defaultdict(list)
            for k in range(1, self.nargs + 1):
                d[k].append((Point(0, -1), "arg", k))
            for b, blk in enumerate(self.blocks):
                for i, st in enumerate(blk["stmts"]):
                    if st["k"] == "assign":
                        d[st["dst"]["local"]].append((Point(b, i), "assign" if not st["dst"]["proj"] else "partial", st))
                t = blk["term"]
                if t["k"] == "call":
                    d[t["dst"]["local"]].append(
                        (Point(b, len(blk["stmts"])), "call" if not t["dst"]["proj"] else "partial_call", Call(self, b, t)))
            self._defs = d
        return self._defs

    def local_name(self, l):
        return self.locals[l].get("name")

    def local_by_name(self, name):
        return [i for i, l in enumerate(self.locals) if l.get("name") == name]

    def ty(self, l):
        return self.locals[l]

    def loc(self, pt):
        return self.span_at(pt)

    # ---- pretty ----------------------------------------------------------------------
    def dump(self):
        out = ["fn %s  [%s] args=%d" % (self.id, self.span, self.nargs)]
        for i, l in enumerate(self.locals):
            out.append("  let _%d: %s%s" % (i, l["s"], ("  // " + l["name"]) if l.get("name") else ""))
        for b, blk in enumerate(self.blocks):
            out.append(" bb%d%s:" % (b, " (cleanup)" if blk["cleanup"] else ""))
            for st in blk["stmts"]:
                if st["k"] == "assign":
                    out.append("    %s = %s   // %s" % (place_str(st["dst"], self), rv_str(st["rv"], self), st["span"]))
                elif st["k"] == "set_discr":
                    out.append("    discr(%s) = %s" % (place_str(st["dst"], self), st["variant"]))
            t = blk["term"]
            k = t["k"]
            if k == "call":
                c = Call(self, b, t)
                out.append("    %s = %s(%s) -> bb%s unwind %s  [%s]  // %s%s" % (
                    place_str(t["dst"], self), (c.callee["path"] if c.callee else "indirect " + op_str(t["callee_op"], self)),
                    ", ".join(op_str(a, self) for a in t["args"]), t["target"], t["unwind"], c.kind +
                    (("=>" + c.callee["resolved"]) if c.callee and c.callee.get("resolved") else ""), t["span"],
                    " macro=" + ",".join(t["macro"]) if t.get("macro") else ""))
            elif k == "switch":
                out.append("    switch %s %s otherwise bb%d   // %s" % (
                    op_str(t["on"], self), " ".join("%s->bb%d" % (v, tb) for v, tb in t["targets"]), t["otherwise"], t["span"]))
            elif k == "drop":
                out.append("    drop(%s: %s) -> bb%d unwind %s   // %s" % (place_str(t["place"], self), t["ty"]["s"], t["target"], t["unwind"], t["span"]))
            elif k == "assert":
                out.append("    assert(%s == %s) %s -> bb%d unwind %s" % (op_str(t["cond"], self), t["expected"], t["msg"][:40], t["target"], t["unwind"]))
            elif k == "goto":
                out.append("    goto bb%d" % t["target"])
            else:
                out.append("    %s" % k)
        return "\n".join(out)


def rv_str(rv, body=None):
    if "use" in rv:
        return op_str(rv["use"], body)
    if "ref" in rv:
        return "&%s%s" % ("mut " if rv.get("mut") else "", place_str(rv["ref"], body))
    if "rawptr" in rv:
        return "&raw %s" % place_str(rv["rawptr"], body)
    if "cast" in rv:
        return "%s as %s (%s)" % (op_str(rv["cast"], body), rv["to"], rv.get("cast_kind"))
    if "bin" in rv:
        return "%s(%s, %s)" % (rv["bin"], op_str(rv["a"], body), op_str(rv["b"], body))
    if "un" in rv:
        return "%s(%s)" % (rv["un"], op_str(rv["a"], body))
    if "discr" in rv:
        return "discriminant(%s)" % place_str(rv["discr"], body)
    if "agg" in rv:
        a = rv["agg"]
        if "adt" in a:
            h = "%s::%s" % (a["adt"], a["variant"])
        elif "closure" in a:
            h = "closure %s" % a["closure"]
        elif "tuple" in a:
            h = "tuple"
        else:
            h = "agg"
        return "%s{%s}" % (h, ", ".join(op_str(o, body) for o in rv["ops"]))
    return rv.get("other", json.dumps(rv))


class Facts:
    def __init__(self, path):
        with open(path) as f:
            self.raw = json.load(f)
        self.path = path
        # helpers that the pinned tree does not have are inlined into their callers (exact summary; see vf/inline.py)
        from .normalise import normalise
        self.normalised = normalise(self.raw)      # parameter order, field and constant names of private items as in the pinned tree
        from .inline import inline_new_helpers
        self.inlined_helpers = inline_new_helpers(self.raw)
        self.sid_alias = self.raw.get("sid_alias", {})
        self.crate = self.raw["crate"]
        self.features = self.raw["features"]
        self.rustc = self.raw["rustc"]
        self.bodies = [Body(b, self) for b in self.raw["bodies"]]
        for b in self.bodies:
            # renamed / moved private functions are seen under the name the pinned tree gave them
            if b.sid in getattr(self, "sid_alias", {}):
                b.orig_sid = b.sid
                b.sid = self.sid_alias[b.sid]
                b.name = b.sid.rsplit("::", 1)[-1]
        self.by_id = {b.id: b for b in self.bodies}
        self.consts = self.raw["consts"]
        self.adts = self.raw["adts"]
        self.impls = self.raw["impls"]

    def body(self, pattern):
        """unique body whose generic-stripped id ends with pattern (fail closed otherwise)"""
        r = self.find(pattern)
        if len(r) != 1:
            raise AnchorError("anchor %r resolves to %d bodies: %s" % (pattern, len(r), [b.id for b in r][:5]))
        return r[0]

    def find(self, pattern):
        out = []
        for b in self.bodies:
            if b.sid == pattern or b.sid.endswith("::" + pattern):
                out.append(b)
        return out

    def const(self, name):
        for k, v in self.consts.items():
            if k == name or k.endswith("::" + name):
                if "value" in v:
                    return v["value"]
        raise AnchorError("constant %r not found or not evaluated" % name)

    def closures_of(self, body):
        pre = body.id + "::{closure#"
        return [b for b in self.bodies if b.id.startswith(pre)]

    def lib_bodies(self):
        return self.bodies

    def n_calls(self):
        return sum(len(b.calls) for b in self.bodies)


class AnchorError(Exception):
    """an anchor of DESIGN §3 could not be resolved: the check is INCONCLUSIVE (exit 3)"""
