"""Resolved call graph over the crate's bodies.  Closures are attached to the site that creates them."""
from collections import deque

from .facts import strip_generics


class CallGraph:
    def __init__(self, facts):
        self.facts = facts
        self.edges = {}      # body id -> list of (callee body id, Call or ('closure', point, span))
        self.extern = {}     # body id -> list of Call (callee not a local body)
        for b in facts.bodies:
            es = []
            ex = []
            for c in b.calls:
                if not c.callee:
                    ex.append(c)
                    continue
                r = c.resolved
                tb = facts.by_id.get(r)
                if tb is not None:
                    es.append((tb.id, c))
                else:
                    ex.append(c)
                # function items passed as values (e.g. `.map(Self::f)`)
                for a in c.args:
                    if "fn" in a:
                        fb = facts.by_id.get(a["fn"].get("resolved") or a["fn"]["def"])
                        if fb is not None:
                            es.append((fb.id, c))
            for bi, blk in enumerate(b.blocks):
                for si, st in enumerate(blk["stmts"]):
                    if st["k"] == "assign" and "agg" in st["rv"] and "closure" in st["rv"]["agg"]:
                        cid = st["rv"]["agg"]["closure"]
                        if cid in facts.by_id:
                            es.append((cid, ("closure", (bi, si), st["span"])))
            self.edges[b.id] = es
            self.extern[b.id] = ex

    def reachable(self, root_id, stop=None):
        """{body id: (parent id, via)} for every body reachable from root (BFS => shortest chains)"""
        seen = {root_id: (None, None)}
        dq = deque([root_id])
        while dq:
            x = dq.popleft()
            if stop and stop(x) and x != root_id:
                continue
            for y, via in self.edges.get(x, []):
                if y not in seen:
                    seen[y] = (x, via)
                    dq.append(y)
        return seen

    def chain(self, seen, target):
        out = []
        x = target
        while x is not None:
            p, via = seen[x]
            span = via.span if hasattr(via, "span") else (via[2] if via else None)
            out.append((strip_generics(x), span))
            x = p
        out.reverse()
        return out

    def callers(self, target_id):
        out = []
        for b, es in self.edges.items():
            for y, via in es:
                if y == target_id:
                    out.append((b, via))
        return out


def callgraph(facts):
    cg = getattr(facts, "_cg", None)
    if cg is None:
        cg = CallGraph(facts)
        facts._cg = cg
    return cg
