"""C11 -- termination under fair schedules (clauses): absence of the named blocking hazards.
D1 at most one bin lock / D2 root lock innermost and paired / D3 park protocol / D4 initialisation ticket released / D5 = L4."""
from .affine import evaluator, Aff, TOP, const_val
from .analysis import flow, regions, cond_of, dominated_by_edge, reach, after, entry, Point, dominates, return_points, lock_calls, held_regions_at
from .anchors import callee_str, is_std_atomic, is_reclaim_atomic, receiver_field, is_link_load
from .callgraph import callgraph
from .facts import op_root, op_local, strip_generics
from .protocol import bin_lock_region, user_code_call
from .rules_c10 import size_ctl_cas, ok_edge

PROP = "C11"
LEVEL = "other"
EXPLANATION = (
    "Liveness as such is NOT decided; decided is the absence of the specific blocking hazards the property names, on every path. D1: while "
    "a bin lock is (or may be) held no other bin lock is acquired, directly or through any callee that can reach a lock acquisition "
    "(may-lock set from the call graph); with D2 the lock-order graph is bin -> tree-root, acyclic, so no cyclic wait among locks exists "
    "under any schedule. D2: the tree write lock is taken only by functions that are themselves only called inside a bin-lock region, "
    "every normal path from lock_root reaches unlock_root before returning, and no user code runs in between. D3: thread::park is called "
    "in exactly one function, only on the true edge of the `waiting` flag; that flag is set only after a won CAS that sets the WAITER bit "
    "and on a path that publishes the thread handle before any park; after park every path re-loads the lock word before acting; the "
    "reader side unparks when its decrement returns READER|WAITER. D4: after a won size_ctl CAS to -1 (init ticket) every normal path "
    "stores a value back before leaving; losers reach yield_now and retry. D5: a writer meeting a forwarding marker moves on to a current "
    "table (rule L4 of C01). Not decided: fair-schedule termination of the retry loops themselves.")


def may_lock_set(facts):
    cg = callgraph(facts)
    direct = {b.id for b in facts.bodies if lock_calls(b)}
    out = {}
    for b in facts.bodies:
        seen = cg.reachable(b.id)
        hit = [x for x in seen if x in direct]
        if hit:
            out[b.id] = (hit[0], cg.chain(seen, hit[0]))
    return out


def rule_d1(ctx, facts):
    ml = may_lock_set(facts)
    for b in facts.bodies:
        for r in regions(b):
            if not bin_lock_region(r):
                continue
            bad = None
            for c in b.calls:
                if c.point == r.call.point or c.point not in r.may or b.is_cleanup(c.b):
                    continue
                if c in lock_calls(b):
                    bad = (c, "acquires a second bin lock")
                    break
                tb = facts.by_id.get(c.resolved)
                if tb is not None and tb.id in ml:
                    bad = (c, "calls %s, which can take a bin lock (%s)" % (strip_generics(tb.id), " -> ".join(x[0] for x in ml[tb.id][1])))
                    break
                # closures created in the region and passed on are followed through the call graph of their creator
            ctx.inst("D1", b, "single bin lock in region %s" % r.call.span.split(":", 1)[1], bad[0].span if bad else r.call.span, bad is None,
                     "no lock acquisition reachable while this lock is held" if bad is None else
                     "while the bin lock taken at %s is held, %s: two threads can wait for each other" % (r.call.span, bad[1]))


def rule_d2(ctx, facts):
    from .rules_c18 import root_lock_fns
    cg = callgraph(facts)
    acq, rel = root_lock_fns(facts)
    acq_ids = {b.id for b in acq}
    rel_ids = {b.id for b in rel}
    if not acq_ids:
        ctx.fail_closed("D2: root-lock acquire function not found")
        return
    # functions calling lock_root; each must be called only inside bin-lock regions (or from another such function)
    users = [b for b in facts.bodies if any(c.resolved in acq_ids for c in b.calls) and b.id not in acq_ids]
    user_ids = {b.id for b in users}
    for u in users:
        for c in u.calls:
            if c.resolved in acq_ids and not u.is_cleanup(c.b):
                from .rules_c18 import root_release_points
                rels = root_release_points(facts, u, rel_ids)
                inside = reach(u, after(u, c.point, label="ret"), avoid=rels)
                leaks = [rp for rp in return_points(u) if rp in inside]
                nested = [x for x in u.calls if x.point in inside and (x.resolved in acq_ids or x in lock_calls(u))]
                ok = not leaks and not nested
                ctx.inst("D2", u, "root lock paired at %s" % c.span.split(":", 1)[1], c.span, ok,
                         "every path from lock_root reaches unlock_root; nothing is locked in between" if ok else
                         ("a path returns with the tree write lock still set" if leaks else "another lock is acquired while the tree write lock is held at %s" % nested[0].span))
        for cid, via in cg.callers(u.id):
            if not hasattr(via, "point"):
                continue
            g = facts.by_id[cid]
            if g.is_cleanup(via.b) or cid in user_ids:
                continue
            held = [r for r in held_regions_at(g, via.point) if bin_lock_region(r)]
            ctx.inst("D2", g, "%s called under the bin lock" % strip_generics(u.id).rsplit("::", 1)[-1], via.span, bool(held),
                     "inside the region opened at %s (lock order bin -> root)" % held[0].call.span if held else
                     "%s takes the tree write lock but is called without the bin lock: two writers can hold the root lock protocol concurrently" % strip_generics(u.id))


def rule_d3(ctx, facts):
    parks = [(b, c) for b in facts.bodies for c in b.calls if callee_str(c).endswith("thread::park") and not b.is_cleanup(c.b)]
    bodies = {b.id for b, c in parks}
    if len(bodies) != 1:
        ctx.inst("D3", parks[0][0] if parks else "crate", "park sites", parks[0][1].span if parks else "src/node.rs", False,
                 "thread::park is called from %d functions (expected exactly one: the contended tree-lock path)" % len(bodies))
        return
    b = parks[0][0]
    WAITER = facts.const("WAITER")
    READER = facts.const("READER")
    fl = flow(b)
    ls = lambda c: ("node::TreeBin", "lock_state") in receiver_field(b, c, 0)
    loads = [c for c in b.calls if is_std_atomic(c) == "load" and ls(c)]
    cass = [c for c in b.calls if is_std_atomic(c) == "compare_exchange" and ls(c)]
    swaps = [c for c in b.calls if is_reclaim_atomic(c) == "swap" and ("node::TreeBin", "waiter") in receiver_field(b, c, 0)]
    publish = [c for c in swaps if op_root(c.args[1]) is not None and
               any(callee_str(x).endswith("Shared::boxed") for x in fl.call_roots(op_root(c.args[1])) if x is not None)]
    for bb, pk in parks:
        gate = None
        for blk in range(len(b.blocks)):
            cd = cond_of(b, blk)
            if cd and cd["kind"] == "bool" and dominated_by_edge(b, pk.point, [(blk, cd["true"])]):
                gate = cd["local"]
        problems = []
        if gate is None:
            # no private flag: the park may instead be gated by the WAITER bit of the lock word itself, provided that bit is only ever set
            # by this function's own CAS and every won CAS publishes the handle before the word is looked at again -- then `WAITER is set`
            # means `I announced myself and my handle is published`
            ev3 = evaluator(b)
            bit_edges = []
            for blk in range(len(b.blocks)):
                cd = cond_of(b, blk)
                if not cd or cd["kind"] != "cmp" or cd["op"] not in ("Eq", "Ne"):
                    continue
                for aa, bb3 in ((cd["a"], cd["b"]), (cd["b"], cd["a"])):
                    fb3 = ev3.operand(bb3)
                    al = op_local(aa)
                    if fb3 is TOP or not fb3.is_const() or fb3.c != 0 or al is None:
                        continue
                    for pt3, kind3, data3 in b.defs.get(al, []):
                        if kind3 == "assign" and data3["rv"].get("bin") == "BitAnd":
                            ops3 = [data3["rv"]["a"], data3["rv"]["b"]]
                            if any(const_val(b, o) == WAITER for o in ops3) and any(
                                    x is not None and x.point in {l.point for l in loads} for o in ops3 if op_root(o) is not None for x in fl.call_roots(op_root(o))):
                                bit_edges.append((blk, cd["false"] if cd["op"] == "Eq" else cd["true"]))
            setters = [c for c in cass if sets_bit(b, c, WAITER)]
            foreign = []
            for ob in facts.bodies:
                if ob.id == b.id:
                    continue
                for c in ob.calls:
                    if ("node::TreeBin", "lock_state") in receiver_field(ob, c, 0) and is_std_atomic(c) in ("fetch_or", "compare_exchange", "store", "swap") \
                            and (sets_bit(ob, c, WAITER) or any((a.get("int") or 0) & WAITER for a in c.args)):
                        foreign.append(c)
            if bit_edges and dominated_by_edge(b, pk.point, bit_edges) and setters and not foreign and publish:
                for c in setters:
                    oke, _ = ok_edge_generic(b, c)
                    if not oke:
                        problems.append("the result of the CAS that sets WAITER is not tested")
                        continue
                    r = reach(b, [Point(oke[1], 0)], avoid={p.point for p in publish})
                    if pk.point in r or any(l.point in r for l in loads):
                        problems.append("after setting WAITER a path re-reads the lock word or parks before the thread handle is published")
                r = reach(b, after(b, pk.point, label="ret"), avoid={l.point for l in loads})
                if any(c.point in r for c in cass) or any(rp in r for rp in return_points(b)):
                    problems.append("after park a path acts (CAS / return) without re-loading the lock word")
            else:
                problems.append("park is guarded neither by a private flag nor by the WAITER bit of a lock word only this function sets")
        else:
            tdefs = [pt for pt, kind, data in b.defs.get(gate, []) if not (kind == "assign" and "use" in data["rv"] and data["rv"]["use"].get("int") == 0)]
            if not tdefs:
                problems.append("the flag is never set")
            for pt in tdefs:
                # after a won CAS that sets WAITER
                won = False
                for c in cass:
                    oke, _ = ok_edge_generic(b, c)
                    if oke and dominated_by_edge(b, pt, [oke]) and sets_bit(b, c, WAITER):
                        won = True
                if not won:
                    problems.append("`%s = true` is not dominated by a won CAS that sets the WAITER bit" % b.local_name(gate))
                # handle published before any park
                if not publish:
                    problems.append("the thread handle is never published (waiter.swap of a fresh handle)")
                else:
                    # ... or the non-null edge of a test of the published handle (the handle is already there)
                    seen_edges = set()
                    for blk2 in range(len(b.blocks)):
                        cd2 = cond_of(b, blk2)
                        if cd2 and cd2["kind"] == "is_null" and cd2.get("arg") is not None:
                            for rc in fl.call_roots(cd2["arg"]):
                                if rc is not None and is_reclaim_atomic(rc) == "load" and ("node::TreeBin", "waiter") in receiver_field(b, rc, 0):
                                    seen_edges.add((blk2, cd2["false"]))
                    r = reach(b, after(b, pt), avoid={p.point for p in publish}, avoid_edges=seen_edges)
                    if pk.point in r:
                        problems.append("a path from `%s = true` reaches park before the thread handle is published" % b.local_name(gate))
            # after park: re-load the lock word before any CAS / return
            r = reach(b, after(b, pk.point, label="ret"), avoid={l.point for l in loads})
            if any(c.point in r for c in cass) or any(rp in r for rp in return_points(b)):
                problems.append("after park a path acts (CAS / return) without re-loading the lock word")
        ctx.inst("D3", b, "park protocol", pk.span, not problems, "flag-gated, handle published first, state re-read after wake-up" if not problems else "; ".join(problems))
    # reader side: decrement compared with READER|WAITER leads to unpark
    ok = False
    where = None
    for rb in facts.bodies:
        ev = evaluator(rb)
        for c in rb.calls:
            if is_std_atomic(c) in ("fetch_add", "fetch_sub") and ("node::TreeBin", "lock_state") in receiver_field(rb, c, 0) and not rb.is_cleanup(c.b):
                for blk in range(len(rb.blocks)):
                    cd = cond_of(rb, blk)
                    if cd and cd["kind"] == "cmp" and cd["op"] in ("Eq", "Ne"):
                        a, bb2 = ev.operand(cd["a"]), ev.operand(cd["b"])
                        if a is not TOP and bb2 is not TOP and a.is_const() and not bb2.is_const():
                            a, bb2 = bb2, a
                        if a is not TOP and bb2 is not TOP and a == Aff.sym(("call", c.b)) and bb2.is_const() and bb2.c == (READER | WAITER):
                            r = reach(rb, [Point(cd["true"] if cd["op"] == "Eq" else cd["false"], 0)])
                            if any(callee_str(x).endswith("Thread::unpark") and x.point in r for x in rb.calls):
                                ok = True
                                where = (rb, c)
    ctx.inst("D3", where[0] if where else "node::TreeBin::find", "last reader unparks the waiter", where[1].span if where else "src/node.rs", ok,
             "decrement result == READER|WAITER leads to unpark" if ok else
             "no reader path unparks the waiting writer when its decrement returns READER|WAITER: the writer can sleep forever")


def rule_d8(ctx, facts):
    """the park handshake is a store-buffering (Dekker) pattern: the waiting writer announces itself (WAITER bit, thread handle) and then
    re-reads the lock word; the last reader decrements the lock word and then reads the handle.  'Either the reader sees the handle or the
    writer sees the decrement' only follows when all four accesses are SeqCst (one total order); with a weaker re-read the writer may
    read a stale reader count and park with nobody left to wake it (allowed by the memory model; Miri exhibits it -- finding F7)."""
    from .rules_c15 import ordering_of
    LS, WT = ("node::TreeBin", "lock_state"), ("node::TreeBin", "waiter")
    parks = [(b, c) for b in facts.bodies for c in b.calls if callee_str(c).endswith("thread::park") and not b.is_cleanup(c.b)]
    if not parks:
        ctx.fail_closed("D8: no park site")
        return

    def ords(b, c):
        return [o for o in (ordering_of(b, a) for a in c.args) if isinstance(o, str)]
    n = 0
    for b in {pb.id: pb for pb, _ in parks}.values():
        # writer side: every load of the lock word in the waiting loop, and the handle publication
        for c in b.calls:
            if b.is_cleanup(c.b):
                continue
            if is_std_atomic(c) == "load" and LS in receiver_field(b, c, 0):
                n += 1
                o = ords(b, c)
                ok = o == ["SeqCst"]
                ctx.inst("D8", b, "waiter re-reads the lock word SeqCst", c.span, ok,
                         "SeqCst" if ok else "the waiting writer re-reads lock_state with %s: it may see a stale reader count after announcing itself and park although "
                         "the last reader has already left without seeing its handle (lost wakeup under the memory model)" % (o or "a non-constant ordering"))
            if is_reclaim_atomic(c) == "swap" and WT in receiver_field(b, c, 0):
                fl = flow(b)
                fresh = op_root(c.args[1]) is not None and any(x is not None and callee_str(x).endswith("Shared::boxed") for x in fl.call_roots(op_root(c.args[1])))
                if fresh:
                    n += 1
                    o = ords(b, c)
                    ok = o == ["SeqCst"]
                    ctx.inst("D8", b, "handle published SeqCst", c.span, ok, "SeqCst" if ok else "the thread handle is published with %s" % o)
            if is_std_atomic(c) == "compare_exchange" and LS in receiver_field(b, c, 0) and sets_bit(b, c, facts.const("WAITER")):
                n += 1
                o = ords(b, c)
                ok = bool(o) and o[0] == "SeqCst"
                ctx.inst("D8", b, "WAITER announced SeqCst", c.span, ok, "SeqCst" if ok else "the CAS that sets WAITER succeeds with %s" % o)
    # reader side
    for rb in facts.bodies:
        for c in rb.calls:
            if is_std_atomic(c) in ("fetch_add", "fetch_sub") and LS in receiver_field(rb, c, 0) and not rb.is_cleanup(c.b):
                r = reach(rb, after(rb, c.point, label="ret"))
                unparks = [x for x in rb.calls if callee_str(x).endswith("Thread::unpark") and x.point in r]
                if not unparks:
                    continue
                n += 1
                o = ords(rb, c)
                ok = o == ["SeqCst"]
                ctx.inst("D8", rb, "reader gives the count back SeqCst", c.span, ok, "SeqCst" if ok else "the reader's decrement of lock_state is %s" % o)
                for x in rb.calls:
                    if is_reclaim_atomic(x) == "load" and WT in receiver_field(rb, x, 0) and x.point in r:
                        n += 1
                        o = ords(rb, x)
                        ok = o == ["SeqCst"]
                        ctx.inst("D8", rb, "reader reads the handle SeqCst", x.span, ok, "SeqCst" if ok else "the reader loads the waiter handle with %s" % o)
    if n < 5:
        ctx.fail_closed("D8: expected the five accesses of the park handshake (re-read, WAITER CAS, handle swap, decrement, handle load), found %d" % n)


# who may wait for another thread (apart from taking a bin lock, judged by D1/D2): frozen, one reason per entry
MAY_WAIT = {
    "map::HashMap::init_table": "losers of the table initialisation yield until the winner has stored the table (D4: the winner always does)",
    "node::TreeBin::contended_lock": "the writer of a tree bin waits for the readers that are inside the tree (D3/D8: it is always woken)",
    "map::num_cpus": "one-time initialisation of the cached CPU count (std Once around a call that runs no user code)",
}


def rule_d10(ctx, facts):
    """no operation waits for a resize, an initialisation or any other thread's progress except at the two places the algorithm provides
    for: every call of a waiting primitive (yield_now, spin_loop, park, sleep, condvar/once waits) sits in one of the functions of
    MAY_WAIT.  A new wait -- e.g. `try_presize` spinning until size_ctl becomes non-negative -- turns a resizer that never finishes (a
    panicking Clone of a key mid-transfer leaves size_ctl negative for good) into a hang of every later caller."""
    from .anchors import is_blocking_extern
    n = 0
    for b in facts.bodies:
        for c in b.calls:
            p = is_blocking_extern(c)
            if not p or b.is_cleanup(c.b):
                continue
            if "Mutex" in p or "lock" in p.rsplit("::", 1)[-1]:
                continue      # lock acquisitions: D1 / D2
            n += 1
            pb = facts.by_id.get(b.id.split("::{closure")[0], b)
            owner = pb.sid        # (re-identified functions carry their pinned name)
            ok = owner in MAY_WAIT
            ctx.inst("D10", b, "wait primitive %s" % p.rsplit("::", 1)[-1], c.span, ok,
                     MAY_WAIT[owner] if ok else
                     "%s is called in %s: an operation now waits there for another thread's progress, and a thread that never finishes its part "
                     "(e.g. a resizer whose key Clone panicked) makes every later caller hang" % (p, owner))
    if n < 3:
        ctx.fail_closed("D10: expected the three waiting sites of the pinned tree (yield_now in init_table, park and spin_loop in contended_lock), found %d" % n)


def ok_edge_generic(body, cas):
    return ok_edge(body, cas)


def sets_bit(body, cas, bit):
    """new value of the CAS is `expected | bit`"""
    from .affine import const_val
    l = op_local(cas.args[2])
    if l is None:
        return False
    ev0 = evaluator(body)
    exp = ev0.operand(cas.args[1])
    # the new value may pass through named locals (`let with_waiter = state | WAITER;`)
    seen = set()
    while l not in seen:
        seen.add(l)
        ds = [d for d in body.defs.get(l, []) if d[1] in ("assign", "call", "arg")]
        if len(ds) == 1 and ds[0][1] == "assign" and "use" in ds[0][2]["rv"] and op_local(ds[0][2]["rv"]["use"]) is not None:
            l = op_local(ds[0][2]["rv"]["use"])
    for pt, kind, data in body.defs.get(l, []):
        if kind == "assign" and data["rv"].get("bin", "").replace("WithOverflow", "") in ("BitOr", "Add"):
            ops = (data["rv"]["a"], data["rv"]["b"])
            # expected | bit, or expected + bit (the same word when the bit is clear in it)
            if any(const_val(body, o) == bit for o in ops) and (
                    data["rv"]["bin"] == "BitOr" or any(ev0.operand(o) is not TOP and exp is not TOP and ev0.operand(o) == exp for o in ops)):
                return True
    # through the checked-add tuple: new = (expected + bit).0
    f = ev0.operand(cas.args[2])
    if f is not TOP and exp is not TOP and (f - exp).is_const() and (f - exp).c == bit:
        return True
    return False


def rule_tree_write_lock(ctx, facts, rule="L11"):
    """tree write lock: every CAS on a tree bin's lock word that sets the WRITER bit expects a word in which nobody holds the lock --
    the constant 0, or a value s tested with `s & M == 0` where M covers WRITER and every reader count (everything but WAITER).  A
    writer that does not wait for the readers rotates / unlinks tree nodes under a lock-free reader that is mid-descent."""
    WRITER, WAITER = facts.const("WRITER"), facts.const("WAITER")
    LS = ("node::TreeBin", "lock_state")
    n = 0
    for b in facts.bodies:
        ev = evaluator(b)
        for x in b.calls:
            if is_std_atomic(x) != "compare_exchange" or LS not in receiver_field(b, x, 0) or b.is_cleanup(x.b):
                continue
            exp, new = ev.operand(x.args[1]), ev.operand(x.args[2])
            sets_writer = (new is not TOP and new.is_const() and new.c.denominator == 1 and int(new.c) & WRITER) or sets_bit(b, x, WRITER)
            if not sets_writer:
                continue
            n += 1
            if exp is not TOP and exp.is_const() and exp.c == 0:
                ctx.inst(rule, b, "write lock taken from the free word", x.span, True, "CAS(lock_state, 0 -> WRITER)")
                continue
            free = False
            for blk in range(len(b.blocks)):
                cd = cond_of(b, blk)
                if not cd or cd["kind"] != "cmp" or cd["op"] not in ("Ne", "Eq"):
                    continue
                for aa, bb in ((cd["a"], cd["b"]), (cd["b"], cd["a"])):
                    fb = ev.operand(bb)
                    al = op_local(aa)
                    if fb is TOP or not fb.is_const() or fb.c != 0 or al is None:
                        continue
                    for pt, kind, data in b.defs.get(al, []):
                        if kind == "assign" and data["rv"].get("bin") == "BitAnd":
                            fs = [ev.operand(data["rv"]["a"]), ev.operand(data["rv"]["b"])]
                            has_s = any(f is not TOP and exp is not TOP and f == exp for f in fs)
                            masks = [int(f.c) for f in fs if f is not TOP and f.is_const() and f.c.denominator == 1]
                            if has_s and any((m | WAITER) & 0xFFFFFFFFFFFFFFFF == 0xFFFFFFFFFFFFFFFF for m in masks):
                                free_edge = cd["false"] if cd["op"] == "Ne" else cd["true"]
                                if dominated_by_edge(b, x.point, [(blk, free_edge)]):
                                    free = True
            # the same predicate spelt as equalities: s == 0 || s == WAITER
            eq_edges = []
            for blk in range(len(b.blocks)):
                cd = cond_of(b, blk)
                if not cd or cd["kind"] != "cmp" or cd["op"] not in ("Ne", "Eq"):
                    continue
                fa, fb = ev.operand(cd["a"]), ev.operand(cd["b"])
                for f1, f2 in ((fa, fb), (fb, fa)):
                    if f1 is not TOP and f2 is not TOP and exp is not TOP and f1 == exp and f2.is_const() and f2.c in (0, WAITER):
                        eq_edges.append((blk, cd["true"] if cd["op"] == "Eq" else cd["false"]))
            # ... or as a match on the word itself: `matches!(s, 0 | WAITER)`
            for blk in range(len(b.blocks)):
                t = b.term(blk)
                if t["k"] != "switch":
                    continue
                fo = ev.operand(t["on"])
                if fo is TOP or exp is TOP or fo != exp:
                    continue
                for v, tb in t["targets"]:
                    if int(v) in (0, WAITER) and len([1 for v2, tb2 in t["targets"] if tb2 == tb and int(v2) not in (0, WAITER)]) == 0 and tb != t["otherwise"]:
                        eq_edges.append((blk, tb))
            if not free and eq_edges and dominated_by_edge(b, x.point, eq_edges):
                free = True
            ctx.inst(rule, b, "write lock taken only when nobody holds it", x.span, free,
                     "the expected word s satisfies s & !WAITER == 0 (no writer, no reader)" if free else
                     "the CAS that sets WRITER expects a lock word that may still carry reader counts (no test `s & !WAITER == 0` guards it): "
                     "the writer restructures the tree while a lock-free reader is descending it")
    if n < 2:
        ctx.fail_closed("%s: expected the two write-lock CAS sites (lock_root, contended_lock), found %d" % (rule, n))


def rule_d4(ctx, facts, rule="D4"):
    for name in ("map::HashMap::init_table", "map::HashMap::try_presize"):
        b = facts.body(name)
        ev = evaluator(b)
        stores = {c.point for c in b.calls if is_std_atomic(c) == "store" and ("map::HashMap", "size_ctl") in receiver_field(b, c, 0)}
        for c in size_ctl_cas(b):
            new = ev.operand(c.args[2])
            if new is TOP or not (new.is_const() and new.c == -1):
                continue
            oke, erre = ok_edge(b, c)
            if not oke:
                ctx.inst(rule, b, "init ticket", c.span, False, "the result of the size_ctl CAS to -1 is not tested")
                continue
            r = reach(b, [Point(oke[1], 0)], avoid=stores)
            leaks = [rp for rp in return_points(b) if rp in r] + ([c.point] if c.point in r else [])
            # stored values are not the lock value itself
            neg = []
            for s in b.calls:
                if s.point in stores:
                    f = ev.operand(s.args[1])
                    if f is not TOP and f.is_const() and f.c < 0:
                        neg.append(s)
            ctx.inst(rule, b, "init ticket released", c.span, not leaks and not neg,
                     "every path from the won CAS stores a value back into size_ctl before leaving" if not leaks and not neg else
                     ("a path leaves with size_ctl == -1: every later operation that needs the table spins forever" if leaks else
                      "a negative constant is stored back at %s" % neg[0].span))
    it = facts.body("map::HashMap::init_table")
    ev = evaluator(it)
    # a yield_now that runs only when size_ctl was seen negative (any spelling of the comparison)
    from .affine import le_at
    scl = [c for c in it.calls if is_std_atomic(c) == "load" and ("map::HashMap", "size_ctl") in receiver_field(it, c, 0)]
    ok = False
    for x in it.calls:
        if callee_str(x).endswith("thread::yield_now") and not it.is_cleanup(x.b):
            syms = [Aff.sym(("call", l.b)) for l in scl]
            for l0 in range(len(it.locals)):
                if any(f is not TOP and f in syms for _, f in ev.def_forms(l0)) and len(ev.def_forms(l0)) > 1:
                    syms.append(Aff.sym(("phi", l0)))
            if any(le_at(it, x.point, sy, -1) is not None for sy in syms):
                ok = True
    ctx.inst(rule, it, "losers yield and retry", it.span, ok, "sc < 0 leads to yield_now and back to the loop head" if ok else
             "a thread that loses the initialisation race does not yield/retry")


def rule_d6(ctx, facts, rule="D6"):
    """tree read lock: a lock-free reader descends the tree (find_tree_node) only after winning CAS(lock_state, s, s + READER) with no
    WRITER/WAITER bit in s, and gives the READER count back on every path (otherwise the waiting writer sleeps forever / the reader
    walks a tree that is being rotated)"""
    WRITER, WAITER, READER = facts.const("WRITER"), facts.const("WAITER"), facts.const("READER")
    ftn = [b for b in facts.bodies if b.sid.endswith("TreeNode::find_tree_node")]
    if not ftn:
        ctx.fail_closed("%s: find_tree_node not found" % rule)
        return
    ftn = ftn[0]
    n = 0
    for b in facts.bodies:
        ev = evaluator(b)
        for c in b.calls:
            if c.resolved != ftn.id or b.is_cleanup(c.b) or b.id == ftn.id:
                continue
            n += 1
            held = [r for r in held_regions_at(b, c.point) if bin_lock_region(r)]
            if held:
                ctx.inst(rule, b, "tree descent by a writer", c.span, True, "inside the bin-lock region opened at %s" % held[0].call.span)
                continue
            LS = ("node::TreeBin", "lock_state")
            won = None
            for x in b.calls:
                if is_std_atomic(x) == "compare_exchange" and LS in receiver_field(b, x, 0):
                    exp, new = ev.operand(x.args[1]), ev.operand(x.args[2])
                    if exp is not TOP and new is not TOP and new == exp + Aff.const(READER):
                        oke, _ = ok_edge(b, x)
                        if oke and dominated_by_edge(b, c.point, [oke]):
                            won = (x, exp, oke)
            if not won:
                ctx.inst(rule, b, "tree descent under the read lock", c.span, False,
                         "a reader descends the tree at %s without having won the read lock (CAS lock_state s -> s + READER): it can walk a tree that a writer is rotating" % c.span)
                continue
            x, exp, oke = won
            # s had no WRITER / WAITER bit
            cover = 0
            for blk in range(len(b.blocks)):
                cd = cond_of(b, blk)
                if cd and cd["kind"] == "cmp" and cd["op"] in ("Ne", "Eq"):
                    for aa, bo in ((cd["a"], cd["b"]), (cd["b"], cd["a"])):
                        bb = ev.operand(bo)
                        al = op_local(aa)
                        if bb is TOP or not bb.is_const() or bb.c != 0 or al is None:
                            continue
                        for pt, kind, data in b.defs.get(al, []):
                            if kind == "assign" and data["rv"].get("bin") == "BitAnd":
                                fs = [ev.operand(data["rv"]["a"]), ev.operand(data["rv"]["b"])]
                                ms = [int(f.c) for f in fs if f is not TOP and f.is_const() and f.c.denominator == 1]
                                if any(f is not TOP and f == exp for f in fs) and ms:
                                    free_edge = cd["false"] if cd["op"] == "Ne" else cd["true"]
                                    if dominated_by_edge(b, x.point, [(blk, free_edge)]):
                                        cover |= ms[0]      # bits shown clear on the way to the CAS, by one test or several
            masked = cover & (WRITER | WAITER) == (WRITER | WAITER)
            # the tree is entered at a root loaded under the read lock: a root read before the CAS may have been rotated away or removed
            stale_root = None
            rl = op_root(c.args[0]) if c.args else None
            if rl is not None:
                for rc in flow(b).call_roots(rl):
                    if rc is not None and is_reclaim_atomic(rc) == "load" and ("node::TreeBin", "root") in receiver_field(b, rc, 0) \
                            and not dominated_by_edge(b, rc.point, [oke]):
                        stale_root = rc
            rel = {y.point for y in b.calls if is_std_atomic(y) in ("fetch_add", "fetch_sub") and LS in receiver_field(b, y, 0)}
            # RAII: the drop (scope end, mem::drop) of a value whose Drop impl gives the reader count back is a release as well
            raii = set()
            for db in facts.bodies:
                if db.impl and db.impl.get("trait") in ("std::ops::Drop", "core::ops::Drop") and any(
                        is_std_atomic(y) in ("fetch_add", "fetch_sub") and LS in receiver_field(db, y, 0) for y in db.calls):
                    raii.add(db.impl.get("self_head"))
            if raii:
                for y in b.calls:
                    if callee_str(y).endswith("mem::drop") and y.args and op_root(y.args[0]) is not None and \
                            b.ty(op_root(y.args[0])).get("base") in raii:
                        rel.add(y.point)
                for bi in range(len(b.blocks)):
                    tt = b.term(bi)
                    if tt["k"] == "drop" and (tt.get("ty") or {}).get("base") in raii:
                        rel.add(b.term_point(bi))
            r = reach(b, [Point(oke[1], 0)], avoid=rel)
            leaks = [rp for rp in return_points(b) if rp in r]
            ok = masked and not leaks and stale_root is None
            ctx.inst(rule, b, "tree descent under the read lock", c.span, ok,
                     "won CAS s -> s + READER with s & (WRITER|WAITER) == 0; root loaded under the lock; the count is given back on every path" if ok else
                     ("the tree is entered at a root that was loaded at %s, before the read lock was won: a writer may have rotated or removed that "
                      "node in between, and the search misses keys that are present" % stale_root.span if stale_root is not None and masked and not leaks else
                      "the read lock is taken although a writer holds or awaits the lock (no test of s & (WRITER|WAITER) == 0 guards the CAS)" if not masked else
                      "a path returns without decrementing the reader count: the writer waits forever"))
    if n < 3:
        ctx.fail_closed("%s: expected the three tree-descent call sites (TreeBin::find, compute_if_present, replace_node), found %d" % (rule, n))


def rule_d11(ctx, facts):
    """help_transfer hands back the successor table: once the table it was given has a non-null `next_table`, every return yields that
    successor -- not the table it was given and not a fresh read of the map's table pointer, which is still the old table while the
    resize is in flight (the caller would re-read the same forwarding marker for as long as the resize lasts, for ever if it never
    finishes)"""
    b = facts.body("HashMap::help_transfer")
    fl = flow(b)
    nts = [c for c in b.calls if is_link_load(c) == "next_table" and not b.is_cleanup(c.b)]
    if not nts:
        ctx.fail_closed("D11: help_transfer does not read the successor of the table it is given")
        return
    n = 0
    for nt in nts:
        edges = []
        for blk in range(len(b.blocks)):
            cd = cond_of(b, blk)
            if cd and cd["kind"] == "is_null" and cd.get("arg") is not None and fl.roots(cd["arg"], through_agg=False)[0] == {("call", nt.b)}:
                edges.append((blk, cd["false"]))
        if not edges:
            continue
        for pt, kind, data in b.defs.get(0, []):
            p0 = Point(pt[0], pt[1])
            if kind not in ("assign", "call") or not dominated_by_edge(b, p0, edges):
                continue
            n += 1
            if kind == "call":
                roots = {("call", pt[0])}
            else:
                src = op_root(data["rv"].get("use") or {}) if "use" in data["rv"] else None
                roots = fl.roots_at(src, p0) if src is not None else {("other", p0)}
            others = [r for r in roots if r != ("call", nt.b)]
            ctx.inst("D11", b, "returns the successor table", b.span_at(p0), not others,
                     "the value returned is the next_table read at %s" % nt.span if not others else
                     "with a successor table present, help_transfer can return %s instead of the successor read at %s: a writer that met a "
                     "forwarding marker retries in the same table and meets the same marker again, for as long as the resize lasts" % (
                         ", ".join(sorted("a value from %s" % (callee_str(b.call_at(r[1])) if r[0] == "call" and b.call_at(r[1]) else str(r)) for r in others)), nt.span))
    if n < 1:
        ctx.fail_closed("D11: no return of help_transfer lies behind the non-null test of the successor table")


def run(ctx, facts):
    ctx.rule("D11", "help_transfer returns the successor of the table it was given whenever there is one", floor=1)
    rule_d11(ctx, facts)
    ctx.rule("D6", "readers descend a tree bin only under the read lock (won READER CAS with no WRITER/WAITER), released on every path; writers under the bin lock", floor=3)
    rule_d6(ctx, facts)
    ctx.rule("D1", "no bin-lock acquisition (direct or through callees) while a bin lock is held", floor=11)
    ctx.rule("D2", "tree write lock: paired on all paths, nothing locked inside, its users called only under the bin lock", floor=4)
    ctx.rule("D10", "waiting primitives (yield_now, spin_loop, park, ...) only in init_table and TreeBin::contended_lock", floor=3)
    rule_d10(ctx, facts)
    ctx.rule("D9", "every loop reachable from a read entry point has a progress witness (rule B3 of C12): lookups and iterators terminate by their own steps", floor=5)
    from .rules_c12 import rule_reader_loops
    rule_reader_loops(ctx, facts, "D9")
    ctx.rule("D8", "park handshake: WAITER CAS, handle publication, lock-word re-read, reader decrement and handle load are all SeqCst", floor=5)
    rule_d8(ctx, facts)
    ctx.rule("D3", "park protocol of the contended tree lock; reader unparks on READER|WAITER", floor=2)
    ctx.rule("D4", "initialisation ticket (size_ctl == -1) released on every path; losers yield and retry", floor=3)
    ctx.rule("D5", "writers that meet a forwarding marker retry in a current table (rule L4)", floor=4)
    rule_d1(ctx, facts)
    rule_d2(ctx, facts)
    rule_d3(ctx, facts)
    rule_d4(ctx, facts)
    from .rules_c01 import rule_l4
    before = len(ctx.instances)
    rule_l4(ctx, facts)
    for i in ctx.instances[before:]:
        i.rule = "D5"
