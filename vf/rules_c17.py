"""C17 -- only thread-safe keys and values can enter a map (compile time).
P1 inserting entry points carry Send+Sync on key and value / P2 the unsafe auto-trait impls are conditional /
P3 lookups stay unbounded / witnesses: Rc rejected, Arc twin compiles."""
import re

from .anchors import callee_str
from .callgraph import callgraph
from .facts import strip_generics
from .witness import Witness, run_all
from .rules_c16 import parse_sig, PRELUDE, safe

PROP = "C17"
LEVEL = "proof"
NEEDS_DEPS = True
EXPLANATION = (
    "Decided on the type-checked program for all client programs. P1: an exported function is *inserting* when the resolved call graph "
    "from it reaches the allocation of a value (Shared::boxed::<V>, the only way a user value enters; a key only enters together with a "
    "value). The combined impl+fn predicates of every inserting function must contain Send and Sync for the key type and, for maps, the "
    "value type. P2: `unsafe impl Send/Sync for BinEntry<K,V>` require K,V: Send resp. Sync and no other unsafe Send/Sync impl mentions a "
    "key/value parameter unconditionally. P3: the read entry points carry no Send/Sync bound on K, V, T. Witnesses: for each inserting "
    "entry point a client program with K = Rc<u8> (and, for maps, V = Rc<u8>) must be rejected with E0277/E0599 and nothing else, its twin "
    "with Arc<u8> must compile; a HashMap<Rc<u8>, Rc<u8>> still supports get/iter/len/clear/reserve. serde witnesses use a local type "
    "with a hand-written Deserialize so that the only missing bound is Send/Sync.")

FACADE_HEADS = ("map::HashMap", "set::HashSet", "map_ref::HashMapRef", "set_ref::HashSetRef", "serde_impls::HashMapVisitor", "serde_impls::HashSetVisitor")
READ_NAMES = ("get", "get_key_value", "contains_key", "contains", "iter", "keys", "values", "len", "is_empty", "next", "index", "fmt")


def impl_head(b):
    if not b.impl:
        return ""
    h = b.impl["self_head"]
    while h.startswith("&"):
        h = h[1:].replace("mut ", "")
    return h


def type_params(b):
    """(key param, value param or None) from the impl's self type"""
    st = b.impl["self"] if b.impl else ""
    m = re.search(r"(HashMap|HashMapRef|HashMapVisitor)<(?:'\w+, )?(\w+), (\w+)", st)
    if m:
        return m.group(2), m.group(3)
    m = re.search(r"(HashSet|HashSetRef|HashSetVisitor)<(?:'\w+, )?(\w+)", st)
    if m:
        return m.group(2), None
    return None, None


def has_bound(preds, param, trait):
    pat = re.compile(r"(^|> )%s: (std|core)::marker::%s$" % (re.escape(param), trait))
    return any(pat.search(p) for p in preds)


def value_alloc_bodies(facts):
    out = {}
    for b in facts.bodies:
        for c in b.calls:
            if callee_str(c).endswith("reclaim::Shared::boxed") and c.callee["substs"] and not b.is_cleanup(c.b):
                t = c.callee["substs"][-1]
                if t == "V":
                    out.setdefault(b.id, []).append(c)
    return out


def alloc_guard_param(facts, b, allocs):
    """k if every value allocation of b happens only when its Option<V> parameter k is Some (e.g. replace_node's new_value)"""
    from .analysis import dominated_by_edge, flow
    from .facts import op_local
    fl = flow(b)
    for k in range(1, b.nargs + 1):
        if b.ty(k)["s"] != "std::option::Option<V>":
            continue
        edges = []
        for blk in range(len(b.blocks)):
            t = b.term(blk)
            if t["k"] != "switch":
                continue
            l = op_local(t["on"])
            for pt, kind, data in b.defs.get(l, []) if l is not None else []:
                if kind == "assign" and "discr" in data["rv"] and not data["rv"]["discr"]["proj"] and data["rv"]["discr"]["local"] == k:
                    for v, tb in t["targets"]:
                        if v == "1":
                            edges.append((blk, tb))
                    if not any(v == "1" for v, _ in t["targets"]) and [v for v, _ in t["targets"]] == ["0"]:
                        edges.append((blk, t["otherwise"]))
        if edges and all(dominated_by_edge(b, c.point, edges) for c in allocs[b.id]):
            return k
    return None


def passes_none(facts, g, call, k):
    """the call passes a constant None for parameter k"""
    from .analysis import flow
    from .facts import op_root
    if k - 1 >= len(call.args):
        return False
    l = op_root(call.args[k - 1])
    if l is None:
        return False
    vs = set()
    seen, stack = set(), [l]
    while stack:
        x = stack.pop()
        if x in seen:
            continue
        seen.add(x)
        for kind, data, pt in flow(g).sources(x):
            if kind == "agg" and "adt" in data["rv"]["agg"]:
                vs.add(data["rv"]["agg"]["variant"])
            elif kind == "copy":
                stack.append(data)
            else:
                vs.add("?")
    return vs == {"None"}


def inserting(facts):
    """exported functions from which a value allocation is reachable, not counting calls that pass None for the Option<V> parameter that
    alone guards the callee's allocations (remove -> replace_node(key, None, ..) never allocates a value)"""
    from collections import deque
    cg = callgraph(facts)
    allocs = value_alloc_bodies(facts)
    guard = {bid: alloc_guard_param(facts, facts.by_id[bid], allocs) for bid in allocs}
    out = []
    for b in facts.bodies:
        if b.kind == "Closure" or not b.exported or impl_head(b) not in FACADE_HEADS:
            continue
        seen = {b.id: (None, None)}
        dq = deque([b.id])
        hit = None
        while dq and hit is None:
            x = dq.popleft()
            if x in allocs and x != b.id or (x == b.id and x in allocs):
                hit = x
                break
            for y, via in cg.edges.get(x, []):
                if y in seen:
                    continue
                if y in allocs and guard.get(y) and hasattr(via, "args") and passes_none(facts, facts.by_id[x], via, guard[y]):
                    continue
                seen[y] = (x, via)
                dq.append(y)
        if hit:
            out.append((b, hit, cg.chain(seen, hit)))
    return out, allocs


_DEF = ("#![allow(unused)]\nuse std::marker::PhantomData;\n"
        "#[derive(Clone, PartialEq, Eq, PartialOrd, Ord, Hash)]\nstruct P(u8, PhantomData<%s>);\n"
        "impl P { fn new(x: u8) -> Self { P(x, PhantomData) } }\n")
RC_SETUP = {
    "Rc": "#![allow(unused)]\nuse std::rc::Rc as Q;\ntype P = Q<u8>;\n",                       # neither Send nor Sync
    "NotSync": _DEF % "std::cell::Cell<u8>",                                                      # Send, not Sync
    "NotSend": _DEF % "std::sync::MutexGuard<'static, u8>",                                       # Sync, not Send
    "Arc": "#![allow(unused)]\nuse std::sync::Arc as Q;\ntype P = Q<u8>;\n",
}
BAD_PTRS = ("Rc", "NotSync", "NotSend")
VARIANTS = tuple((p, "bound") for p in BAD_PTRS) + (("Arc", "pass"),)
PRELUDE = PRELUDE.replace("#![allow(unused)]\n", "")


def inherent_program(fac, method, which, ptr):
    """which: 'key' | 'value'; ptr: 'Rc' | 'Arc'"""
    k = "P" if which == "key" else "u8"
    v = "P" if which == "value" else "u8"
    kv = "P::new(1)" if which == "key" else "1u8"
    vv = "P::new(2)" if which == "value" else "2u8"
    L = [RC_SETUP[ptr], PRELUDE]
    if fac in ("map::HashMap", "map_ref::HashMapRef"):
        L.append("    let coll: flurry::HashMap<%s, %s> = flurry::HashMap::new();" % (k, v))
    else:
        if which == "value":
            return None
        L.append("    let coll: flurry::HashSet<%s> = flurry::HashSet::new();" % k)
    L.append("    let guard = coll.guard();")
    recv = "coll"
    g = ", &guard"
    if fac in ("map_ref::HashMapRef", "set_ref::HashSetRef"):
        L.append("    let pinned = coll.pin();")
        recv, g = "pinned", ""
    is_map = fac in ("map::HashMap", "map_ref::HashMapRef")
    calls = {
        "insert": "%s.insert(%s%s%s)" % (recv, kv, (", " + vv) if is_map else "", g),
        "try_insert": "%s.try_insert(%s, %s%s)" % (recv, kv, vv, g),
        "compute_if_present": "%s.compute_if_present(&%s, |_k, _v| None%s)" % (recv, kv, g),
        "remove": "%s.remove(&%s%s)" % (recv, kv, g),
        "remove_entry": "%s.remove_entry(&%s%s)" % (recv, kv, g),
        "take": "%s.take(&%s%s)" % (recv, kv, g),
        "retain": "%s.retain(|_k%s| true%s)" % (recv, ", _v" if is_map else "", g),
        "retain_force": "%s.retain_force(|_k, _v| true%s)" % (recv, g),
    }
    if method not in calls:
        return None
    L.append("    let _ = %s;" % calls[method])
    L.append("}")
    return "\n".join(L) + "\n"


def trait_program(kind, which, ptr):
    k = "P" if which == "key" else "u8"
    v = "P" if which == "value" else "u8"
    L = [RC_SETUP[ptr], PRELUDE]
    progs = {
        "map_from_iter": "    let v: Vec<(%s, %s)> = Vec::new();\n    let m: flurry::HashMap<%s, %s> = v.into_iter().collect();" % (k, v, k, v),
        "map_extend": "    let m: flurry::HashMap<%s, %s> = flurry::HashMap::new();\n    let v: Vec<(%s, %s)> = Vec::new();\n    (&m).extend(v);" % (k, v, k, v),
        "map_clone": "    let m: flurry::HashMap<%s, %s> = flurry::HashMap::new();\n    let c = Clone::clone(&m);" % (k, v),
        "set_from_iter": "    let v: Vec<%s> = Vec::new();\n    let s: flurry::HashSet<%s> = v.into_iter().collect();" % (k, k),
        "set_extend": "    let s: flurry::HashSet<%s> = flurry::HashSet::new();\n    let v: Vec<%s> = Vec::new();\n    (&s).extend(v);" % (k, k),
        "set_clone": "    let s: flurry::HashSet<%s> = flurry::HashSet::new();\n    let c = Clone::clone(&s);" % k,
    }
    if kind.startswith("set") and which == "value":
        return None
    L.append(progs[kind])
    L.append("}")
    return "\n".join(L) + "\n"


SERDE_LOCAL = """
struct Local(u8, std::marker::PhantomData<*const ()>);
impl PartialEq for Local { fn eq(&self, o: &Self) -> bool { self.0 == o.0 } }
impl Eq for Local {}
impl PartialOrd for Local { fn partial_cmp(&self, o: &Self) -> Option<std::cmp::Ordering> { Some(self.cmp(o)) } }
impl Ord for Local { fn cmp(&self, o: &Self) -> std::cmp::Ordering { self.0.cmp(&o.0) } }
impl std::hash::Hash for Local { fn hash<H: std::hash::Hasher>(&self, h: &mut H) { self.0.hash(h) } }
impl Clone for Local { fn clone(&self) -> Self { Local(self.0, std::marker::PhantomData) } }
impl<'de> serde::Deserialize<'de> for Local {
    fn deserialize<D: serde::Deserializer<'de>>(d: D) -> Result<Self, D::Error> { Ok(Local(u8::deserialize(d)?, std::marker::PhantomData)) }
}
"""
SERDE_SAFE = "unsafe impl Send for Local {}\nunsafe impl Sync for Local {}\n"


def serde_program(kind, which, safe_variant):
    if kind == "set" and which == "value":
        return None
    k = "Local" if which == "key" else "u8"
    v = "Local" if which == "value" else "u8"
    body = "fn de<'de, D: serde::Deserializer<'de>>(d: D) {\n"
    if kind == "map":
        body += "    let _m: Result<flurry::HashMap<%s, %s>, D::Error> = serde::Deserialize::deserialize(d);\n}\n" % (k, v)
    else:
        body += "    let _s: Result<flurry::HashSet<%s>, D::Error> = serde::Deserialize::deserialize(d);\n}\n" % k
    return "#![allow(unused)]\n" + SERDE_LOCAL + (SERDE_SAFE if safe_variant else "") + body + "fn main() {}\n"


def rayon_program(kind, which, ptr):
    if kind.startswith("set") and which == "value":
        return None
    k = "P" if which == "key" else "u8"
    v = "P" if which == "value" else "u8"
    L = [RC_SETUP[ptr], "use rayon::iter::{FromParallelIterator, ParallelExtend, IntoParallelIterator};\n"]
    if kind == "map_from_par_iter":
        L.append("fn f<I: IntoParallelIterator<Item = (%s, %s)>>(i: I) { let m: flurry::HashMap<%s, %s> = FromParallelIterator::from_par_iter(i); }" % (k, v, k, v))
    elif kind == "map_par_extend":
        L.append("fn f<I: IntoParallelIterator<Item = (%s, %s)>>(i: I, m: &mut flurry::HashMap<%s, %s>) { ParallelExtend::par_extend(m, i); }" % (k, v, k, v))
    elif kind == "set_from_par_iter":
        L.append("fn f<I: IntoParallelIterator<Item = %s>>(i: I) { let s: flurry::HashSet<%s> = FromParallelIterator::from_par_iter(i); }" % (k, k))
    elif kind == "set_par_extend":
        L.append("fn f<I: IntoParallelIterator<Item = %s>>(i: I, s: &mut flurry::HashSet<%s>) { ParallelExtend::par_extend(s, i); }" % (k, k))
    L.append("fn main() {}")
    return "\n".join(L) + "\n"


def run(ctx, facts, deps=None, work=None, repo=None):
    feats = set(facts.features)
    ctx.rule("P1", "every exported function that can reach the allocation of a value requires Send + Sync of the key (and value) type", floor=12,
             floor_note="15 inserting entry points without features, 23 with serde+rayon (remove/retain pass None and are not inserting)")
    ctx.rule("P2", "unsafe impl Send/Sync in the crate (informational: listed, not a clause)", floor=2)
    ctx.rule("P3", "read entry points carry no Send/Sync bound on K, V, T", floor=15)
    ctx.rule("P4", "witnesses: Rc key / Rc value rejected with E0277/E0599 at every inserting entry point; Arc twin compiles; lookups on Rc maps compile",
             floor=40)
    ins, allocs = inserting(facts)
    if len(allocs) < 3:
        ctx.fail_closed("P1: expected value allocations (Shared::boxed::<V>) in put, compute_if_present and replace_node; found %s" % sorted(allocs))
    for b, hit, chain in ins:
        kp, vp = type_params(b)
        if kp is None:
            ctx.inst("P1", b, "bounds", b.span, False, "cannot determine the key/value parameters of %s" % (b.impl or {}).get("self"))
            continue
        missing = []
        for p in (kp, vp):
            if p is None or p == "()":
                continue
            for tr in ("Send", "Sync"):
                if not has_bound(b.predicates, p, tr):
                    missing.append("%s: %s" % (p, tr))
        ctx.inst("P1", b, "Send + Sync on %s" % ("/".join(x for x in (kp, vp) if x and x != "()")), b.span, not missing,
                 "reaches a value allocation via %s; bounds present" % " -> ".join(x[0] for x in chain[-3:]) if not missing else
                 "can put a value into the map (via %s) but lacks the bound(s) %s" % (" -> ".join(x[0] for x in chain), ", ".join(missing)))
    # P2
    for im in facts.impls:
        tr = im.get("trait", "")
        if tr.endswith("marker::Send") or tr.endswith("marker::Sync"):
            name = tr.rsplit("::", 1)[-1]
            params = set(re.findall(r"\b([A-Z])\b", im["self"]))
            missing = [p for p in sorted(params) if p in ("K", "V", "T") and not has_bound(im.get("predicates", []), p, name)]
            if im.get("unsafe"):
                # informational: the collections are Send + Sync through AtomicPtr whatever these impls say, and every inserting path
                # carries its own K/V: Send + Sync bound (P1, P4) -- an unconditional impl on the crate-private BinEntry changes no
                # program's acceptance (mutant audit, DESIGN 6.5)
                ctx.inst("P2", im["self"], "unsafe impl %s" % name, im["span"], True,
                         "conditional on %s" % ", ".join("%s: %s" % (p, name) for p in sorted(params) if p in ("K", "V", "T")) if not missing else
                         "unconditional in %s (not a clause of C17: see P1/P4)" % ", ".join(missing))
    # P3
    for b in facts.bodies:
        if b.kind == "Closure" or not b.exported or impl_head(b) not in FACADE_HEADS + ("iter::Iter", "iter::Keys", "iter::Values"):
            continue
        if b.name not in READ_NAMES or (b.impl or {}).get("trait") in ("serde::Serialize",):
            continue
        bad = [p for p in b.predicates if re.search(r"(^|> )(K|V|T): (std|core)::marker::(Send|Sync)$", p)]
        ctx.inst("P3", b, "lookup unbounded", b.span, not bad, "no Send/Sync bound on K, V, T" if not bad else "read entry point requires %s" % bad)
    # P4 witnesses
    W = []
    for b, hit, chain in ins:
        fac = impl_head(b)
        tr = (b.impl or {}).get("trait")
        if tr or fac not in ("map::HashMap", "set::HashSet", "map_ref::HashMapRef", "set_ref::HashSetRef"):
            continue
        for which in ("key", "value"):
            for ptr, exp in VARIANTS:
                src = inherent_program(fac, b.name, which, ptr)
                if src:
                    W.append((b, Witness("%s_%s__%s_%s" % (safe(fac.split("::")[-1]), b.name, which, ptr), src, exp,
                                         "%s::%s with %s %s" % (fac.split("::")[-1], b.name, which, ptr))))
    for kind in ("map_from_iter", "map_extend", "map_clone", "set_from_iter", "set_extend", "set_clone"):
        for which in ("key", "value"):
            for ptr, exp in VARIANTS:
                src = trait_program(kind, which, ptr)
                if src:
                    W.append((None, Witness("trait_%s__%s_%s" % (kind, which, ptr), src, exp, "%s with %s %s" % (kind, which, ptr))))
    if "serde" in feats:
        for kind in ("map", "set"):
            for which in ("key", "value"):
                for sv, exp in ((False, "bound"), (True, "pass")):
                    src = serde_program(kind, which, sv)
                    if src:
                        W.append((None, Witness("serde_%s__%s_%s" % (kind, which, "safe" if sv else "unsafe"), src, exp,
                                                "Deserialize for %s with a %s type that is %sSend+Sync" % (kind, which, "" if sv else "not "))))
    if "rayon" in feats:
        for kind in ("map_from_par_iter", "map_par_extend", "set_from_par_iter", "set_par_extend"):
            for which in ("key", "value"):
                for ptr, exp in VARIANTS:
                    src = rayon_program(kind, which, ptr)
                    if src:
                        W.append((None, Witness("rayon_%s__%s_%s" % (kind, which, ptr), src, exp, "%s with %s %s" % (kind, which, ptr))))
    pos = "#![allow(unused)]\nuse std::rc::Rc;\n" + PRELUDE + """    let m: flurry::HashMap<Rc<u8>, Rc<u8>> = flurry::HashMap::new();
    let g = m.guard();
    consume(m.get(&Rc::new(1), &g));
    consume(m.contains_key(&Rc::new(1), &g));
    consume(m.iter(&g).count());
    consume(m.len());
    m.clear(&g);
    m.reserve(4, &g);
    let s: flurry::HashSet<Rc<u8>> = flurry::HashSet::new();
    consume(s.pin().contains(&Rc::new(1)));
    consume(s.pin().iter().count());
}
"""
    W.append((None, Witness("positive_lookups_on_rc", pos, "pass", "get/contains/iter/len/clear/reserve on HashMap<Rc,Rc> and HashSet<Rc>")))
    if deps is None:
        ctx.fail_closed("P4: dependency directory of the build is not available")
    else:
        run_all([w for _, w in W], deps, work)
    twin = {}
    for b, w in W:
        if w.expect == "pass":
            twin[w.name.rsplit("_", 1)[0]] = w.ok
    for b, w in W:
        fn = b if b is not None else "witness::" + w.name.split("__")[0]
        if w.ok is None:
            ctx.inst("P4", fn, w.name, getattr(b, "span", "witness"), True, "INCONCLUSIVE: " + w.verdict, nontrivial=False)
            ctx.fail_closed("witness %s %s" % (w.name, w.verdict))
            continue
        ctx.inst("P4", fn, w.name, getattr(b, "span", "witness"), w.ok,
                 "%s: %s" % (w.what, w.verdict) if w.ok else
                 ("%s: %s -- a non-thread-safe type can enter a shared map" % (w.what, w.verdict) if w.expect == "bound" else "%s: %s" % (w.what, w.verdict)))
    ctx.extra["checker_cmd"] = "rustc +nightly --edition 2021 --emit=metadata --error-format=json --extern flurry=<rmeta of /repo built in this run> <witness>.rs"
    ctx.extra["witness_programs"] = len(W)
    ctx.note("inserting entry points: %s" % sorted(strip_generics(b.id) for b, _, _ in ins))
