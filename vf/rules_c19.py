"""C19 -- optional bulk paths (serde, rayon), clauses.  V1 no panic site on an input-dependent path of the deserialisation visitors /
V2 deserialisers build through the public, checked API with the new map's own guard / V3 rayon paths only delegate to the checked
public insert with a guard of the same map."""
from .analysis import flow, reach, after, Point
from .anchors import callee_str
from .callgraph import callgraph
from .facts import strip_generics, op_root

PROP = "C19"
LEVEL = "other"
CONFIGS = {"quick": [("serde", "rayon")], "thorough": [("serde", "rayon"), ("serde",), ("rayon",)]}
EXPLANATION = (
    "Clauses, features serde+rayon. V1: in the bodies of the serde Visitor / Deserialize impls (and their closures) no call of the panic "
    "family (core::panicking::*, unreachable!/panic!/assert!, Option/Result unwrap/expect) is reachable once the first value has been "
    "pulled from the deserialiser (next_entry / next_element / next_key / next_value / size_hint): whatever the input repeats or omits, "
    "the visitor returns Ok or the deserialiser's Err. V2: those bodies call only exported flurry functions, and every guard they pass "
    "was produced by guard()/pin() of the very map they insert into (never Guard::unprotected). V3: every body in rayon_impls.rs calls "
    "only exported flurry functions, sibling par_extend impls and rayon adaptors; the guard-producing and the inserting closure of "
    "for_each_init capture the same map. Parallel collect/extend therefore inherit C01/C09/C17 from insert. Not decided: round-trip "
    "equality and 'same key set' (values); allocation failure on absurd size hints.")

ACCESS_FNS = ("next_entry", "next_element", "next_key", "next_value", "next_entry_seed", "next_element_seed", "next_key_seed",
              "next_value_seed", "size_hint")
PANIC_WRAPPERS = ("option::Option::unwrap", "option::Option::expect", "result::Result::unwrap", "result::Result::expect",
                  "result::Result::unwrap_err", "result::Result::expect_err")


def is_panic(c):
    d = callee_str(c)
    if d.startswith("core::panicking::") or d.startswith("std::rt::begin_panic") or d.startswith("std::panicking::") or d.endswith("::panic_fmt"):
        return d
    for w in PANIC_WRAPPERS:
        if d.endswith(w):
            return d
    if any(m in ("unreachable", "core::unreachable", "panic", "core::panic", "assert", "assert_eq", "assert_ne", "unimplemented", "todo")
           for m in c.macro) and c.target is None:
        return d
    return None


def de_bodies(facts):
    out = []
    for b in facts.bodies:
        root = b
        bid = b.id
        while "::{closure#" in bid:
            bid = bid.rsplit("::{closure#", 1)[0]
        rb = facts.by_id.get(bid, b)
        tr = (rb.impl or {}).get("trait", "") or ""
        if tr in ("serde::de::Visitor", "serde::Deserialize", "serde::de::DeserializeSeed"):
            out.append((b, rb))
    return out


def file_of(b):
    return b.span.split(":")[0]


def guard_origin_ok(facts, b, c, k_guard, k_recv):
    """guard argument derives from guard()/pin() on the same local as the receiver"""
    fl = flow(b)
    gl = op_root(c.args[k_guard])
    rl = op_root(c.args[k_recv])
    if gl is None or rl is None:
        return False, "guard or receiver is not a local"
    groots, _ = fl.roots(gl)
    recv = fl.closure_locals(rl)
    why = []
    ok = bool(groots)
    for r in groots:
        if r[0] != "call":
            ok = False
            why.append("guard comes from %s" % (r,))
            continue
        gc = b.call_at(r[1])
        s = callee_str(gc)
        if s.endswith("Guard::unprotected"):
            ok = False
            why.append("Guard::unprotected() at %s" % gc.span)
        elif s.endswith("::guard") or s.endswith("::pin") or s.endswith("Collector::enter"):
            grl = op_root(gc.args[0]) if gc.args else None
            if grl is None or not (fl.closure_locals(grl) & recv):
                ok = False
                why.append("guard made from a different object than the one inserted into (%s)" % gc.span)
        else:
            ok = False
            why.append("guard produced by %s" % s)
    return ok, "; ".join(why)


# operations that can make items disappear (or merge) between the source and the insert
DROPPING = {
    "Vec": ("dedup", "dedup_by", "dedup_by_key", "retain", "retain_mut", "truncate", "pop", "drain", "clear", "swap_remove", "remove",
            "split_off", "extract_if", "pop_if"),
    "VecDeque": ("retain", "retain_mut", "truncate", "pop_front", "pop_back", "drain", "clear", "swap_remove_back", "swap_remove_front",
                 "remove", "split_off"),
    "Iterator": ("filter", "filter_map", "take", "skip", "step_by", "take_while", "skip_while", "map_while", "find", "find_map", "nth",
                 "last", "zip", "min", "max", "min_by", "max_by", "min_by_key", "max_by_key", "reduce", "position", "scan",
                 # consumers that stop at the first decisive item: whatever follows it is never pulled (and never inserted)
                 "any", "all", "try_for_each", "try_fold", "rposition", "try_reduce", "try_find"),
    "ParallelIterator": ("filter", "filter_map", "take_any", "skip_any", "take_any_while", "skip_any_while", "find_any", "find_first",
                         "find_last", "find_map_any", "find_map_first", "find_map_last", "while_some", "reduce", "reduce_with",
                         "min", "max", "min_by", "max_by", "min_by_key", "max_by_key",
                         "any", "all", "try_for_each", "try_for_each_with", "try_for_each_init", "try_fold", "try_fold_with", "try_reduce",
                         "try_reduce_with", "panic_fuse"),
    "IndexedParallelIterator": ("take", "skip", "step_by", "zip", "interleave_shortest", "position_any", "position_first", "positions"),
}


def dropping_op(c):
    d = strip_generics((c.callee or {}).get("def") or "")
    parts = d.rsplit("::", 2)
    if len(parts) < 2:
        return None
    owner, name = parts[-2], parts[-1]
    if name in DROPPING.get(owner, ()):
        return "%s::%s" % (owner, name)
    return None


def rule_v5(ctx, facts, files):
    n = 0
    for b in facts.bodies:
        if not file_of(b).endswith(files):
            continue
        n += 1
        bad = [(c, dropping_op(c)) for c in b.calls if not b.is_cleanup(c.b) and dropping_op(c)]
        if bad:
            c, d = bad[0]
            ctx.inst("V5", b, "item-dropping operation %s" % d, c.span, False,
                     "%s is applied on the way from the input to the map: items of the input can be dropped or merged before they are inserted, so "
                     "the result differs from inserting every item sequentially" % d)
        else:
            ctx.inst("V5", b, "no item-dropping operation", b.span, True, "no filtering / deduplicating / truncating adaptor or container operation")
    return n


def rule_v6(ctx, facts):
    """a visitor that fills a collection it did not create itself (`deserialize_in_place`: the target is handed in through the visitor)
    clears it before the first insert -- otherwise what the target held before survives, and deserialising does not yield the collection
    that was serialised"""
    from .rules_c17 import inserting
    ins_ids = {b.id for b, _, _ in inserting(facts)[0]}
    n = 0
    for b, rb in de_bodies(facts):
        fl = flow(b)
        ins = [c for c in b.calls if c.resolved in ins_ids and not b.is_cleanup(c.b) and c.args and facts.by_id[c.resolved].name in ("insert", "try_insert", "put")]
        if not ins:
            continue
        for c in ins:
            r = op_root(c.args[0])
            if r is None:
                continue
            roots, locs = fl.roots(r)
            handed_in = any(x[0] == "arg" for x in roots) and not any(
                x[0] == "call" and b.call_at(x[1]) is not None and callee_str(b.call_at(x[1])).rsplit("::", 1)[-1] in (
                    "with_hasher", "with_capacity_and_hasher", "with_capacity", "new", "default") for x in roots)
            n += 1
            if not handed_in:
                ctx.inst("V6", b, "collection filled by the visitor", c.span, True, "created by the visitor itself (empty)")
                continue
            clears = [x for x in b.calls if x.name == "clear" and not b.is_cleanup(x.b) and x.args and op_root(x.args[0]) is not None
                      and fl.closure_locals(op_root(x.args[0])) & locs]
            from .analysis import dominates
            ok = any(dominates(b, x.point, c.point) for x in clears)
            ctx.inst("V6", b, "collection filled by the visitor", c.span, ok,
                     "handed in from outside and cleared before the first insert" if ok else
                     "the visitor inserts into a collection that was handed to it (deserialize_in_place) without clearing it first: entries the "
                     "target held before survive, and the result is not the collection that was serialised")
    return n


def run(ctx, facts):
    feats = set(facts.features)
    if "serde" in feats:
        ctx.rule("V6", "a visitor inserts only into a collection it created itself, or clears the one it was handed before the first insert")
        ctx.set_floor("V6", 2, "visit_map, visit_seq")
        rule_v6(ctx, facts)
    ctx.rule("V5", "between the input (parallel iterator / deserialiser) and the insert nothing can drop or merge items: no filtering, "
                   "deduplicating, truncating or searching adaptor, no removing container operation in the rayon and serde entry points")
    files = tuple(f for f, k in (("rayon_impls.rs", "rayon"), ("serde_impls.rs", "serde")) if k in feats)
    if files:
        ctx.set_floor("V5", 8 if "rayon" in feats else 4, "bodies and closures of rayon_impls.rs / serde_impls.rs")
        rule_v5(ctx, facts, files)
    ctx.rule("V1", "no panic-family call reachable after the first pull from the deserialiser in Visitor/Deserialize bodies")
    ctx.rule("V2", "deserialisers call only exported flurry functions and pass the new map's own guard")
    ctx.rule("V3", "rayon bodies delegate only to exported functions / sibling impls; guard and insert closures capture the same map")
    if "serde" in feats:
        ctx.set_floor("V1", 4, "visit_map, visit_seq, 2 deserialize")
        ctx.set_floor("V2", 2, "visit_map, visit_seq")
        dbs = de_bodies(facts)
        for b, rb in dbs:
            if b.name in ("expecting",):
                continue
            access = [c for c in b.calls if c.kind in ("param_trait_method", "trait_method_unresolved") and c.name in ACCESS_FNS]
            panics = [(c, is_panic(c)) for c in b.calls if is_panic(c) and not b.is_cleanup(c.b)]
            # run-time checks that panic in every build profile: division / remainder by a divisor that is not a constant, bounds checks
            class _A:      # an assert terminator presented like a call site
                def __init__(self, blk, t):
                    self.point, self.span, self.macro, self.b = b.term_point(blk), t["span"], t.get("macro", []), blk
            for blk in range(len(b.blocks)):
                t = b.term(blk)
                if t["k"] == "assert" and not b.is_cleanup(blk):
                    msg = str(t.get("msg", ""))
                    if msg.startswith("DivisionByZero(") or msg.startswith("RemainderByZero("):
                        # the asserted condition is `divisor == 0` (expected false): constant non-zero divisors never fire
                        from .affine import evaluator, TOP
                        ev = evaluator(b)
                        cl = op_root(t["cond"]) if "cond" in t else None
                        const_div = False
                        for pt0, kind0, data0 in b.defs.get(cl, []) if cl is not None else []:
                            if kind0 == "assign" and data0["rv"].get("bin") in ("Eq", "Ne"):
                                fs = [ev.operand(data0["rv"]["a"]), ev.operand(data0["rv"]["b"])]
                                nz = [f for f in fs if f is not TOP and f.is_const() and f.c != 0]
                                zs = [f for f in fs if f is not TOP and f.is_const() and f.c == 0]
                                if nz and zs:
                                    const_div = True
                        # ... and neither does a divisor that a dominating comparison shows to be non-zero
                        guarded = False
                        if not const_div:
                            from .affine import ne0_at
                            for pt0, kind0, data0 in b.defs.get(cl, []) if cl is not None else []:
                                if kind0 == "assign" and data0["rv"].get("bin") in ("Eq", "Ne"):
                                    for o in (data0["rv"]["a"], data0["rv"]["b"]):
                                        f = ev.operand(o)
                                        if f is not TOP and not f.is_const() and ne0_at(b, b.term_point(blk), f) is not None:
                                            guarded = True
                        if not const_div and not guarded:
                            panics.append((_A(blk, t), "attempt to divide by zero (%s)" % msg))
                    elif msg.startswith("BoundsCheck"):
                        panics.append((_A(blk, t), "index out of bounds (%s)" % msg[:60]))
            bad = None
            if access:
                starts = []
                for a in access:
                    starts += after(b, a.point, label="ret")
                r = reach(b, starts)
                for c, d in panics:
                    if c.point in r:
                        bad = (c, d)
                        break
            else:
                # bodies that pull nothing themselves (deserialize) must not panic at all
                if panics:
                    bad = panics[0]
            if bad:
                c, d = bad
                ctx.inst("V1", b, "panic site %s" % d.rsplit("::", 1)[-1], c.span, False,
                         "%s%s is reachable after input has been read from the deserialiser: some well-formed input makes deserialisation panic"
                         % (d, (" (" + ",".join(c.macro) + "!)") if c.macro else ""))
            else:
                ctx.inst("V1", b, "no input-dependent panic", b.span, True, "%d access call(s), %d panic-family call(s), none reachable after an access"
                         % (len(access), len(panics)))
            # V2
            if b.name in ("visit_map", "visit_seq") or b.kind == "Closure":
                for c in b.calls:
                    if b.is_cleanup(c.b):
                        continue
                    tb = facts.by_id.get(c.resolved)
                    if tb is None or tb.kind == "Closure" or file_of(tb) == file_of(b):
                        continue
                    if not tb.exported:
                        ctx.inst("V2", b, "calls %s" % strip_generics(tb.id), c.span, False, "deserialiser bypasses the public API (crate-private %s)" % strip_generics(tb.id))
                    elif tb.name in ("insert", "try_insert", "put") and len(c.args) >= 3:
                        ok, why = guard_origin_ok(facts, b, c, len(c.args) - 1, 0)
                        ctx.inst("V2", b, "%s with own guard" % tb.name, c.span, ok, "guard from guard()/pin() of the same collection" if ok else why)
    if "serde" in feats:
        # V4: what was pulled from the deserialiser is inserted before the next pull / before returning
        ctx.rule("V4", "every entry pulled from the deserialiser reaches an insert of the new collection before the next pull or the return")
        ctx.set_floor("V4", 2, "visit_map, visit_seq")
        from .rules_c17 import inserting
        ins_ids = {b.id for b, _, _ in inserting(facts)[0]}
        for b, rb in de_bodies(facts):
            access = [c for c in b.calls if c.kind in ("param_trait_method", "trait_method_unresolved")
                      and c.name in ("next_entry", "next_element", "next_key", "next_entry_seed", "next_element_seed", "next_key_seed")
                      and not b.is_cleanup(c.b)]
            if not access:
                continue
            fl = flow(b)
            acc_pts = {a.point for a in access}
            from .analysis import return_points
            rets = set(return_points(b))
            for a in access:
                dl = a.dst_local()
                if dl is None:
                    continue
                derived = fl.flows_to(dl)
                # the Some arm is where the payload is taken out of the pulled Option: statements reading (x as Some).* with x deriving
                # from the pulled result (drop elaboration re-tests the discriminant elsewhere but only *drops* such places)
                starts = []
                for bi, blk in enumerate(b.blocks):
                    if blk["cleanup"]:
                        continue
                    for si, st_ in enumerate(blk["stmts"]):
                        if st_["k"] != "assign":
                            continue
                        rv = st_["rv"]
                        pl = rv.get("ref") or (rv.get("use") and (rv["use"].get("copy") or rv["use"].get("move")))
                        if not pl or pl["local"] not in derived:
                            continue
                        if any(isinstance(e, dict) and e.get("downcast") == "Some" for e in pl["proj"]):
                            starts.append((Point(bi, si), pl["local"]))
                if not starts:
                    ctx.inst("V4", b, "pull at %s" % a.span.split(":", 1)[1], a.span, False,
                             "cannot find where the payload of the pulled Option is taken out: the rule cannot follow the entry")
                    continue
                def sinks_of(src):
                    payload = fl.flows_to(src)
                    out = set()
                    for c in b.calls:
                        tb = facts.by_id.get(c.resolved)
                        if tb is not None and tb.id in ins_ids and any(op_root(x) in payload for x in c.args):
                            out.add(c.point)
                    return out
                # only the first extraction on a path starts an obligation
                all_sinks = set().union(*[sinks_of(src) for _, src in starts])
                cand = {st for st, _ in starts}
                first = [(st, src) for st, src in starts
                         if st in reach(b, after(b, a.point, label="ret"), avoid=all_sinks | (cand - {st}), unwind=False)]
                for st, src in first:
                    sinks = sinks_of(src)
                    r = reach(b, [st], avoid=sinks, unwind=False)
                    lost = [p for p in acc_pts if p in r] + [p for p in rets if p in r]
                    ctx.inst("V4", b, "entry pulled at %s" % a.span.split(":", 1)[1], a.span, bool(sinks) and not lost,
                             "every path from the Some arm to the next pull or the return inserts the entry (%d inserting call(s))" % len(sinks)
                             if sinks and not lost else
                             ("the pulled entry is never handed to an inserting function of the collection" if not sinks else
                              "a path from the Some arm reaches %s at %s without inserting the entry: input entries are silently dropped"
                              % ("the next pull" if lost[0] in acc_pts else "the return", b.span_at(lost[0]))))
    if "rayon" in feats:
        ctx.set_floor("V3", 8, "8 impl methods + closures in rayon_impls.rs")
        rb_all = [b for b in facts.bodies if file_of(b).endswith("rayon_impls.rs")]
        from .rules_c17 import inserting
        inserting_ids = {b.id for b, _, _ in inserting(facts)[0]}
        n_ins = 0
        for b in rb_all:
            for c in b.calls:
                tb = facts.by_id.get(c.resolved)
                if tb is not None and tb.id in inserting_ids and tb.name == "insert" and not file_of(tb).endswith("rayon_impls.rs"):
                    n_ins += 1
        if n_ins < 1:
            ctx.fail_closed("V3: no call of the public insert found in rayon_impls.rs")
        for b in rb_all:
            bad = []
            n = 0
            for c in b.calls:
                if b.is_cleanup(c.b):
                    continue
                tb = facts.by_id.get(c.resolved)
                if tb is None:
                    if callee_str(c).endswith("Guard::unprotected"):
                        bad.append((c, "uses Guard::unprotected()"))
                    continue
                n += 1
                if tb.kind == "Closure" or file_of(tb).endswith("rayon_impls.rs"):
                    continue
                if not tb.exported:
                    bad.append((c, "calls crate-private %s" % strip_generics(tb.id)))
                elif tb.id in inserting_ids and tb.name != "insert":
                    # parallel extend/collect must mean "insert every item": the same operation sequential insertion performs
                    bad.append((c, "puts items into the map through %s instead of insert: an item no longer replaces the value already stored for its "
                                   "key, so parallel extend differs from inserting the same items sequentially" % strip_generics(tb.id)))
            # for_each_init closures capture the same map
            clos = []
            for bi, blk in enumerate(b.blocks):
                for st in blk["stmts"]:
                    if st["k"] == "assign" and "agg" in st["rv"] and "closure" in st["rv"]["agg"]:
                        clos.append(st)
            if len(clos) >= 2:
                fl = flow(b)
                caps = []
                for st in clos:
                    s = set()
                    for o in st["rv"]["ops"]:
                        r = op_root(o)
                        if r is not None:
                            s |= {x for x in fl.closure_locals(r) if 1 <= x <= b.nargs}
                    caps.append(s)
                guard_c = [i for i, st in enumerate(clos) if any(callee_str(c).endswith("::guard") or callee_str(c).endswith("::pin")
                                                                 for c in facts.by_id[st["rv"]["agg"]["closure"]].calls)]
                ins_c = [i for i, st in enumerate(clos) if any(c.name == "insert" for c in facts.by_id[st["rv"]["agg"]["closure"]].calls)]
                if guard_c and ins_c and not (caps[guard_c[0]] & caps[ins_c[0]]):
                    bad.append((None, "the guard-producing closure and the inserting closure capture different maps"))
            if bad:
                c, why = bad[0]
                ctx.inst("V3", b, "delegation", c.span if c else b.span, False, why)
            else:
                ctx.inst("V3", b, "delegation", b.span, True, "%d local call(s), all to exported functions / sibling impls" % n)
