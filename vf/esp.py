"""ESP-style path-sensitive typestate (Das, Lerner, Seigle 2002): per program point, a map typestate -> environment of tracked
flag locals (constants / enum variants); environments of the same typestate are joined, different typestates are kept apart;
switches over a tracked flag prune infeasible edges and refine the flag on the edge taken."""
from collections import deque

from .analysis import flow
from .facts import Point, op_local, op_place, op_int

UNKNOWN = None
CMP_OPS = ("Lt", "Le", "Gt", "Ge", "Eq", "Ne")
SWAP = {"Lt": "Gt", "Le": "Ge", "Gt": "Lt", "Ge": "Le", "Eq": "Eq", "Ne": "Ne"}


def iv_refine(iv, op, k, truth):
    """interval (lo, hi, excluded) of x after learning that `x op k` is `truth`; None if infeasible"""
    lo, hi, ex = iv
    if not truth:
        op = {"Lt": "Ge", "Le": "Gt", "Gt": "Le", "Ge": "Lt", "Eq": "Ne", "Ne": "Eq"}[op]
    if op == "Lt":
        hi = k - 1 if hi is None else min(hi, k - 1)
    elif op == "Le":
        hi = k if hi is None else min(hi, k)
    elif op == "Gt":
        lo = k + 1 if lo is None else max(lo, k + 1)
    elif op == "Ge":
        lo = k if lo is None else max(lo, k)
    elif op == "Eq":
        lo = k if lo is None else max(lo, k)
        hi = k if hi is None else min(hi, k)
    elif op == "Ne":
        ex = ex | {k}
    while lo is not None and lo in ex:
        lo += 1
    while hi is not None and hi in ex:
        hi -= 1
    if lo is not None and hi is not None and lo > hi:
        return None
    return (lo, hi, frozenset(e for e in ex if (lo is None or e >= lo) and (hi is None or e <= hi)))


def iv_decide(iv, op, k):
    """True / False if `x op k` is decided by the interval, else None"""
    t = iv_refine(iv, op, k, True)
    f = iv_refine(iv, op, k, False)
    if t is None and f is not None:
        return False
    if f is None and t is not None:
        return True
    return None
STD_VARIANTS = {
    "std::option::Option": ["None", "Some"], "core::option::Option": ["None", "Some"],
    "std::result::Result": ["Ok", "Err"], "core::result::Result": ["Ok", "Err"],
    "std::cmp::Ordering": None,
    "std::ops::ControlFlow": ["Continue", "Break"], "core::ops::ControlFlow": ["Continue", "Break"],
    "std::ops::control_flow::ControlFlow": ["Continue", "Break"], "core::ops::control_flow::ControlFlow": ["Continue", "Break"],
}


def variant_index(facts, adt, name):
    v = STD_VARIANTS.get(adt)
    if v:
        return v.index(name) if name in v else None
    d = facts.adts.get(adt)
    if d:
        names = [x["name"] for x in d["variants"]]
        return names.index(name) if name in names else None
    return None


def caller_constants(body):
    """{parameter local: ('variant', adt, 'None')} for the Option parameters of a crate-private function to which EVERY call site in the
    crate passes the constant None (e.g. replace_node's `new_value`: no public path replaces through it) -- paths on which such a
    parameter is Some are infeasible, and the typestate rules need not judge them"""
    cached = getattr(body, "_caller_constants", None)
    if cached is not None:
        return cached
    out = {}
    facts = body.facts
    if body.kind != "Closure" and not body.exported:
        from .callgraph import callgraph
        from .facts import op_root
        sites = [(cid, via) for cid, via in callgraph(facts).callers(body.id) if hasattr(via, "point") and hasattr(via, "args")]
        sites = [(cid, via) for cid, via in sites if not facts.by_id[cid].is_cleanup(via.b) and via.resolved == body.id]
        for k in range(1, body.nargs + 1):
            ty = body.ty(k)
            if not ty["head"].endswith("option::Option") or not sites:
                continue
            allnone = True
            for cid, via in sites:
                g = facts.by_id[cid]
                if k - 1 >= len(via.args) or op_root(via.args[k - 1]) is None:
                    allnone = False
                    break
                vs, seen, stack = set(), set(), [op_root(via.args[k - 1])]
                while stack:
                    x = stack.pop()
                    if x in seen:
                        continue
                    seen.add(x)
                    for kind, data, pt in flow(g).sources(x):
                        if kind == "agg" and "adt" in data["rv"]["agg"]:
                            vs.add(data["rv"]["agg"]["variant"])
                        elif kind == "copy":
                            stack.append(data)
                        else:
                            vs.add("?")
                if vs != {"None"}:
                    allnone = False
                    break
            if allnone:
                out[k] = ("variant", ty.get("base") or "std::option::Option", "None")
    body._caller_constants = out
    return out


class Esp:
    def __init__(self, body, spec, extra_flags=()):
        self.body = body
        self.spec = spec
        self.facts = body.facts
        self.flags = self._flag_locals() | set(extra_flags)
        self.states = {}   # point -> {(typestate, key flag values): env(dict)}
        # named bool / Option flags the code itself branches on are part of the state key (kept apart at joins)
        self.key_flags = sorted(l for l in self.flags if body.local_name(l) and (
            body.ty(l)["s"] == "bool" or body.ty(l)["head"].endswith("option::Option")))[:8]
        # integer counters a spec asks to keep apart at joins (interval-refined by compare-with-constant branches)
        self.key_flags += sorted(l for l in getattr(spec, "key_ints", ()) if l in self.flags and l not in self.key_flags)

    # -- which locals are tracked ---------------------------------------------------------
    def _flag_locals(self):
        body = self.body
        seeds = set()
        for b in range(len(body.blocks)):
            t = body.term(b)
            if t["k"] == "switch":
                l = op_local(t["on"])
                if l is not None:
                    seeds.add(l)
        out = set()
        stack = list(seeds)
        while stack:
            l = stack.pop()
            if l in out:
                continue
            out.add(l)
            for pt, kind, data in body.defs.get(l, []):
                if kind == "assign":
                    rv = data["rv"]
                    if "use" in rv:
                        r = op_local(rv["use"])
                        if r is not None:
                            stack.append(r)
                        else:
                            pl = rv["use"].get("copy") or rv["use"].get("move")
                            if pl and len(pl["proj"]) == 1 and isinstance(pl["proj"][0], dict) and "field" in pl["proj"][0] \
                                    and pl["proj"][0].get("of") == "tuple":
                                stack.append(pl["local"])      # part of a tuple: track the tuple
                    elif "agg" in rv and "tuple" in rv["agg"]:
                        for o in rv["ops"]:
                            r = op_local(o)
                            if r is not None:
                                stack.append(r)
                    elif "discr" in rv and not rv["discr"]["proj"]:
                        stack.append(rv["discr"]["local"])
                    elif "un" in rv and rv["un"] == "Not":
                        r = op_local(rv["a"])
                        if r is not None:
                            stack.append(r)
                    elif rv.get("bin") in CMP_OPS:
                        # comparison of an integer local with a constant: track the integer as an interval
                        for x, y in ((rv["a"], rv["b"]), (rv["b"], rv["a"])):
                            if op_local(x) is not None and "int" in y:
                                stack.append(op_local(x))
                elif kind == "call":
                    # the ControlFlow of `flag?`: track the Option / Result it was made from
                    c = body.call_at(pt[0]) if hasattr(body, "call_at") else None
                    if c is not None and c.callee and c.callee.get("def", "").endswith("Try::branch") and c.args:
                        r = op_local(c.args[0])
                        if r is not None:
                            stack.append(r)
        return out

    def int_source(self, l):
        """named local a comparison temp was copied from (single-definition copies only)"""
        seen = set()
        while l not in seen:
            seen.add(l)
            ds = [d for d in self.body.defs.get(l, []) if d[1] in ("assign", "call", "arg")]
            if len(ds) != 1 or ds[0][1] != "assign" or "use" not in ds[0][2]["rv"]:
                return l
            r = op_local(ds[0][2]["rv"]["use"])
            if r is None or self.body.local_name(l):
                return l
            l = r
        return l

    # -- abstract evaluation --------------------------------------------------------------
    def eval_stmt(self, st, env):
        """returns env' (copy-on-write) after an assign statement"""
        if st["k"] != "assign":
            return env
        d = st["dst"]
        if d["proj"]:
            # partial write into a tracked aggregate: forget it
            if d["local"] in env:
                env = dict(env)
                env.pop(d["local"], None)
            return env
        l = d["local"]
        if l not in self.flags:
            return env
        rv = st["rv"]
        val = UNKNOWN
        if "use" in rv:
            op = rv["use"]
            if "const" in op:
                if "int" in op:
                    val = ("int", op["int"])
            else:
                r = op_local(op)
                if r is not None and r in env:
                    val = env[r]
                elif r is None:
                    # field i of a tuple with known parts
                    pl = op.get("copy") or op.get("move")
                    if pl and len(pl["proj"]) == 1 and isinstance(pl["proj"][0], dict) and "field" in pl["proj"][0]:
                        tv = env.get(pl["local"])
                        if tv and tv[0] == "tuple":
                            i = pl["proj"][0]["field"]
                            if isinstance(i, int) and i < len(tv[1]) and tv[1][i] is not UNKNOWN:
                                val = tv[1][i]
        elif "agg" in rv and "adt" in rv["agg"]:
            val = ("variant", rv["agg"]["adt"], rv["agg"]["variant"])
        elif "agg" in rv and "tuple" in rv["agg"]:
            # a tuple built from known parts (e.g. a helper returning (value, removed?, count)): remember the parts
            parts = []
            for o in rv["ops"]:
                if "const" in o:
                    parts.append(("int", o["int"]) if "int" in o else UNKNOWN)
                else:
                    r = op_local(o)
                    parts.append(env.get(r) if r is not None else UNKNOWN)
            if any(x is not UNKNOWN for x in parts):
                val = ("tuple", tuple(parts))
        elif "discr" in rv and not rv["discr"]["proj"]:
            src = env.get(rv["discr"]["local"])
            if src and src[0] == "variant":
                vi = variant_index(self.facts, src[1], src[2])
                if vi is not None:
                    val = ("int", vi)
            if val is UNKNOWN:
                val = ("discr_of", rv["discr"]["local"])
        elif "un" in rv and rv["un"] == "Not":
            r = op_local(rv["a"])
            if r is not None and r in env and env[r][0] == "int":
                val = ("int", 0 if env[r][1] else 1)
        elif rv.get("bin") in CMP_OPS:
            a, b = rv["a"], rv["b"]
            op = rv["bin"]
            if op_local(b) is not None and "int" in a:
                a, b, op = b, a, SWAP[op]
            x = op_local(a)
            if x is not None and "int" in b:
                x = self.int_source(x)
                cur = env.get(x)
                k = b["int"]
                if cur and cur[0] == "int":
                    cur = ("iv", cur[1], cur[1], frozenset())
                if cur and cur[0] == "iv":
                    d = iv_decide(cur[1:], op, k)
                    if d is not None:
                        val = ("int", 1 if d else 0)
                if val is UNKNOWN:
                    val = ("cmp", op, x, k)
        env = dict(env)
        # anything that was "discr_of l" is stale now
        for k in [k for k, v in env.items() if v == ("discr_of", l) or (v[0] == "cmp" and v[2] == l) or (v[0] in ("is_none_of", "is_some_of") and v[1] == l)]:
            del env[k]
        if val is UNKNOWN:
            env.pop(l, None)
        else:
            env[l] = val
        return env

    def refine_edge(self, b, target_value, env):
        """taking the switch edge for `target_value` (int, or None for otherwise): feasible? refined env"""
        t = self.body.term(b)
        l = op_local(t["on"])
        if l is None:
            return True, env
        cur = env.get(l)
        listed = [int(v) for v, _ in t["targets"]]
        if cur and cur[0] == "int":
            if target_value is None:
                return norm(cur[1]) not in [norm(x) for x in listed], env
            return norm(cur[1]) == norm(target_value), env
        env2 = env
        if cur and cur[0] == "cmp":
            _, op, x, k = cur
            truth = None
            if target_value is not None:
                truth = target_value != 0
            elif [int(v) for v, _ in t["targets"]] == [0]:
                truth = True
            if truth is None:
                return True, env
            xv = env.get(x)
            if xv and xv[0] == "int":
                xv = ("iv", xv[1], xv[1], frozenset())
            base = xv[1:] if xv and xv[0] == "iv" else ((0 if self.body.ty(x)["s"].startswith("u") else None), None, frozenset())
            r = iv_refine(base, op, k, truth)
            if r is None:
                return False, env
            env2 = dict(env)
            env2[l] = ("int", 1 if truth else 0)
            env2[x] = ("iv",) + r if not (r[0] is not None and r[0] == r[1]) else ("int", r[0])
            return True, env2
        if cur and cur[0] in ("is_none_of", "is_some_of"):
            src = cur[1]
            sv = env.get(src)
            truth = None
            if target_value is not None:
                truth = 1 if target_value != 0 else 0
            elif [int(v) for v, _ in t["targets"]] == [0]:
                truth = 1
            if sv and sv[0] == "variant" and truth is not None:
                isnone = 1 if sv[2] == "None" else 0
                val = isnone if cur[0] == "is_none_of" else 1 - isnone
                return val == truth, env
            if truth is not None:
                env2 = dict(env)
                env2[l] = ("int", truth)
                isnone = truth if cur[0] == "is_none_of" else 1 - truth
                adt = self.body.ty(src).get("base") or "std::option::Option"
                env2[src] = ("variant", adt, "None" if isnone else "Some")
                return True, env2
            return True, env
        if target_value is not None:
            env2 = dict(env)
            env2[l] = ("int", target_value)
            if cur and cur[0] == "discr_of":
                src = cur[1]
                sv = env.get(src)
                adt = None
                if sv and sv[0] == "variant":
                    adt = sv[1]
                # record the variant on the source when its ADT is known from its type
                ty = self.body.ty(src)
                adt = adt or ty.get("base")
                names = STD_VARIANTS.get(adt)
                if names is None and adt in self.facts.adts:
                    names = [x["name"] for x in self.facts.adts[adt]["variants"]]
                if names and 0 <= target_value < len(names):
                    env2[src] = ("variant", adt, names[target_value])
        elif len(listed) == 1 and cur is UNKNOWN:
            # bool-like: otherwise of `0 -> ..` means non-zero
            if listed[0] == 0 and self.body.ty(l)["s"] == "bool":
                env2 = dict(env)
                env2[l] = ("int", 1)
        elif cur and cur[0] == "discr_of" and len(listed) >= 1:
            # otherwise edge of a discriminant switch over a two-variant enum: the remaining variant
            src = cur[1]
            ty = self.body.ty(src)
            adt = ty.get("base")
            names = STD_VARIANTS.get(adt)
            if names and len(names) == 2 and len(listed) == 1:
                other = 1 - listed[0]
                env2 = dict(env)
                env2[l] = ("int", other)
                env2[src] = ("variant", adt, names[other])
        return True, env2

    # -- fixpoint --------------------------------------------------------------------------
    def run(self, start_pt=None, init_ts=None, init_env=None):
        body = self.body
        spec = self.spec
        start = start_pt or Point(0, 0)
        init_ts = init_ts if init_ts is not None else spec.initial()
        dq = deque()
        self._queued = set()
        env0 = dict(caller_constants(body))
        env0.update(init_env or {})
        self.flags |= set(env0)
        self._merge(start, init_ts, env0, dq)
        steps = 0
        while dq:
            pt, skey = dq.popleft()
            self._queued.discard((pt, skey))
            steps += 1
            if steps > 3000000:
                raise RuntimeError("ESP did not converge in %s" % body.id)
            cur = self.states.get(pt, {})
            if skey not in cur:
                continue
            for (ts, _kf), env in [(skey, cur[skey])]:
                b, i = pt
                if i < body.nstmts(b):
                    st = body.blocks[b]["stmts"][i]
                    env2 = self.eval_stmt(st, env)
                    for ts2 in spec.on_stmt(pt, st, ts, env):
                        self._merge(Point(b, i + 1), ts2, env2, dq)
                    continue
                t = body.term(b)
                k = t["k"]
                if k == "switch":
                    for v, tb in t["targets"]:
                        ok, env2 = self.refine_edge(b, int(v), env)
                        if ok:
                            for ts2 in spec.on_edge(b, tb, v, ts, env2):
                                self._merge(Point(tb, 0), ts2, env2, dq)
                    ok, env2 = self.refine_edge(b, None, env)
                    if ok:
                        for ts2 in spec.on_edge(b, t["otherwise"], "otherwise", ts, env2):
                            self._merge(Point(t["otherwise"], 0), ts2, env2, dq)
                elif k == "call":
                    c = body.call_at(b)
                    env2 = env
                    dl = c.dst_local()
                    if dl is not None and dl in env:
                        env2 = dict(env)
                        env2.pop(dl, None)
                    if dl is not None and dl in self.flags and c.callee:
                        nm = c.callee.get("def", "")
                        pol = 1 if nm.endswith("Option::<T>::is_none") else (0 if nm.endswith("Option::<T>::is_some") else None)
                        if pol is not None and c.args:
                            from .analysis import ref_target
                            src = ref_target(body, c.args[0])
                            if src is not None:
                                env2 = dict(env2)
                                sv = env2.get(src)
                                if sv and sv[0] == "variant":
                                    isnone = 1 if sv[2] == "None" else 0
                                    env2[dl] = ("int", isnone if pol == 1 else 1 - isnone)
                                else:
                                    env2[dl] = ("is_none_of" if pol == 1 else "is_some_of", src)
                    if c.callee and c.callee.get("def", "").endswith(("Option::<T>::take", "mem::take")) and c.args:
                        # `x.take()`: the result is what x held, x is None afterwards
                        from .analysis import ref_target
                        src = ref_target(body, c.args[0])
                        sv = env2.get(src) if src is not None else None
                        if sv and sv[0] == "variant" and str(body.ty(src).get("s", "")).startswith(("std::option::Option", "core::option::Option")):
                            env2 = dict(env2)
                            if dl is not None:
                                env2[dl] = sv
                                self.flags.add(dl)
                            env2[src] = ("variant", sv[1], "None") if len(sv) == 3 else sv
                    if c.callee and c.callee.get("def", "").endswith("Try::branch") and c.args and dl is not None:
                        # `opt?` / `res?`: Continue on Some / Ok, Break on None / Err
                        from .facts import op_root as _root
                        src = _root(c.args[0])
                        sv = env2.get(src) if src is not None else None
                        if sv and sv[0] == "variant" and len(sv) == 3 and sv[2] in ("None", "Some", "Ok", "Err"):
                            head = body.ty(dl).get("head", "")
                            if "ControlFlow" in head:
                                env2 = dict(env2)
                                env2[dl] = ("variant", head, "Continue" if sv[2] in ("Some", "Ok") else "Break")
                                self.flags.add(dl)
                    for ts2 in spec.on_call(pt, c, ts, env):
                        if t["target"] is not None:
                            self._merge(Point(t["target"], 0), ts2, env2, dq)
                    if spec.follow_unwind and isinstance(t["unwind"], int):
                        for ts2 in spec.on_unwind(pt, c, ts, env):
                            self._merge(Point(t["unwind"], 0), ts2, env, dq)
                elif k in ("goto",):
                    self._merge(Point(t["target"], 0), ts, env, dq)
                elif k in ("drop", "assert"):
                    for ts2 in spec.on_term(pt, t, ts, env):
                        self._merge(Point(t["target"], 0), ts2, env, dq)
                    if spec.follow_unwind and isinstance(t.get("unwind"), int):
                        self._merge(Point(t["unwind"], 0), ts, env, dq)
                elif k == "return":
                    spec.on_return(pt, ts, env)
                elif k == "resume":
                    spec.on_resume(pt, ts, env)
                elif k == "other":
                    for s in t.get("succ", []):
                        self._merge(Point(s, 0), ts, env, dq)
        return self.states

    def _merge(self, pt, ts, env, dq):
        cur = self.states.setdefault(pt, {})
        key = (ts, tuple(env.get(f) for f in self.key_flags))
        old = cur.get(key)
        if old is None:
            cur[key] = env
            if (pt, key) not in self._queued:
                self._queued.add((pt, key))
                dq.append((pt, key))
            return
        # join: keep agreeing bindings (tuples part by part)
        joined = {}
        for k, v in old.items():
            w = env.get(k)
            if w == v:
                joined[k] = v
            elif v and w and v[0] == "tuple" and w[0] == "tuple" and len(v[1]) == len(w[1]):
                parts = tuple(a if a == b else UNKNOWN for a, b in zip(v[1], w[1]))
                if any(x is not UNKNOWN for x in parts):
                    joined[k] = ("tuple", parts)
        if joined != old:
            cur[key] = joined
            if (pt, key) not in self._queued:
                self._queued.add((pt, key))
                dq.append((pt, key))


def norm(v):
    return v % 256 if -129 < v < 0 else v


class Spec:
    """default spec: no events"""
    follow_unwind = False

    def initial(self):
        return "init"

    def on_stmt(self, pt, st, ts, env):
        return [ts]

    def on_edge(self, b, tb, label, ts, env):
        return [ts]

    def on_call(self, pt, call, ts, env):
        return [ts]

    def on_unwind(self, pt, call, ts, env):
        return [ts]

    def on_term(self, pt, term, ts, env):
        return [ts]

    def on_return(self, pt, ts, env):
        pass

    def on_resume(self, pt, ts, env):
        pass
