"""C10 -- cooperative resizing (clauses).  Z1 single finisher, complete publication / Z2 doubling / Z3 cap guard /
Z4 bit-layout constants / Z5 tickets / Z6 sibling agreement of the joining rules."""
from fractions import Fraction

from .affine import evaluator, Aff, TOP
from .analysis import flow, cond_of, dominated_by_edge, reach, after, entry, Point, dominates, return_points
from .anchors import anchors, callee_str, is_std_atomic, is_reclaim_atomic, receiver_field
from .facts import op_root, op_local, op_int, strip_generics

PROP = "C10"
LEVEL = "other"
EXPLANATION = (
    "Clauses. Z1: in transfer the publication block {next_table := null, table := next, retire(old table), size_ctl := threshold} is "
    "reachable only through the true edge of one boolean (`finishing`); that boolean becomes true only after a successful CAS of "
    "size_ctl from sc to sc-1 and on the equal edge of (sc-2) == resize_stamp(n) << SHIFT, i.e. only the last participant finishes; the "
    "four effects lie on every path through the block, in that order, before the return. Z2: the new table has exactly twice the old "
    "length (thresholds: K2 under C14). Z3: initiation is guarded by len < 2^30. Z4: the bit layout of size_ctl from the evaluated "
    "constants (stamp bits + shift = word size, MAX_RESIZERS = 2^shift - 1, resize_stamp sets bit STAMP_BITS-1 so the shifted stamp is "
    "negative). Z5: whoever wins the CAS to rs+2 (initiators) or sc+1 (helpers) calls transfer on every path, and every return of transfer "
    "is preceded by the sc-1 CAS (the ticket is given back) or is the finisher's. Z6: help_transfer and add_count refuse to join on the "
    "same four atoms (sign of sc, sc == rs + MAX_RESIZERS, sc == rs + 1, transfer_index <= 0), each dominating the joining CAS on its "
    "refusing edge. Not decided: 'every old bin migrated exactly once' and non-overlap of generations over all schedules.")


def field_calls(body, pred, field):
    return [c for c in body.calls if pred(c) and field in receiver_field(body, c, 0) and not body.is_cleanup(c.b)]


def size_ctl_cas(body):
    return field_calls(body, lambda c: is_std_atomic(c) == "compare_exchange", ("map::HashMap", "size_ctl"))


def ok_edge(body, cas):
    """(block, target) of the edge taken when the CAS succeeded (via .is_ok()/.is_err() or a match on the result)"""
    dl = cas.dst_local()
    fl = flow(body)
    for blk in range(len(body.blocks)):
        cd = cond_of(body, blk)
        if cd and cd["kind"] == "is_ok" and cd.get("arg") is not None and cd["arg"] in fl.flows_to(dl):
            return (blk, cd["true"]), (blk, cd["false"])
    return None, None


def rule_z1(ctx, facts):
    tr = facts.body("map::HashMap::transfer")
    an = anchors(facts)
    fl = flow(tr)
    ev = evaluator(tr)
    e1 = [c for c in tr.calls if is_reclaim_atomic(c) == "store" and ("map::HashMap", "next_table") in receiver_field(tr, c, 0) and not tr.is_cleanup(c.b)]
    e2 = [c for c in tr.calls if is_reclaim_atomic(c) == "swap" and ("map::HashMap", "table") in receiver_field(tr, c, 0) and not tr.is_cleanup(c.b)]
    e4 = field_calls(tr, lambda c: is_std_atomic(c) == "store", ("map::HashMap", "size_ctl"))
    e3 = []
    for c in tr.calls:
        k = an.is_retire(c)
        if k is not None and e2 and op_root(c.args[k]) in fl.flows_to(e2[0].dst_local()):
            e3.append(c)
    if max(len(e1), len(e2), len(e3), len(e4)) > 1 and min(len(e1), len(e2), len(e3), len(e4)) >= 1:
        ctx.fail_closed("Z1: more than one candidate for a publication effect in transfer (%d/%d/%d/%d): cannot pair them" % (len(e1), len(e2), len(e3), len(e4)))
        return
    if not (len(e1) == 1 and len(e2) == 1 and len(e3) == 1 and len(e4) == 1):
        ctx.inst("Z1", tr, "publication effects", tr.span, False,
                 "expected exactly one each of next_table.store(null), table.swap, retire(old), size_ctl.store in transfer; found %d/%d/%d/%d"
                 % (len(e1), len(e2), len(e3), len(e4)))
        return
    E = [e1[0], e2[0], e3[0], e4[0]]
    # null operand of E1
    nl = op_root(E[0].args[1])
    null_ok = nl is not None and all(r[0] == "call" and callee_str(tr.call_at(r[1])).endswith("Shared::null") for r in fl.roots(nl)[0])
    # the gating boolean
    gate = None
    for blk in range(len(tr.blocks)):
        cd = cond_of(tr, blk)
        if cd and cd["kind"] == "bool" and all(dominated_by_edge(tr, e.point, [(blk, cd["true"])]) for e in E):
            gate = (blk, cd)
    order_ok = all(dominates(tr, E[i].point, E[i + 1].point) for i in range(3))
    complete = not any(rp in reach(tr, after(tr, E[0].point, label="ret"), avoid={E[3].point}) for rp in return_points(tr))
    ctx.inst("Z1", tr, "publication block", E[0].span, bool(gate) and order_ok and complete and null_ok,
             "all four effects are gated by `%s`, ordered, and on every path to the return" % (tr.local_name(gate[1]["local"]) if gate else "?")
             if gate and order_ok and complete and null_ok else
             ("the publication effects are not all behind one boolean gate" if not gate else
              "effects out of order (next_table:=null, table swap, retire, threshold)" if not order_ok else
              "next_table is not cleared with null" if not null_ok else
              "a path through the finishing block returns before all four effects are done"))
    if not gate:
        return
    F = gate[1]["local"]
    trues = []
    for pt, kind, data in tr.defs.get(F, []):
        if kind == "assign" and "use" in data["rv"] and data["rv"]["use"].get("int") == 1:
            trues.append(pt)
        elif kind == "assign" and "use" in data["rv"] and data["rv"]["use"].get("int") == 0:
            continue
        elif kind != "arg":
            trues.append(pt)
    cass = size_ctl_cas(tr)
    for pt in trues:
        why = []
        # (1) successful CAS sc -> sc-1
        dec = None
        for c in cass:
            exp, new = ev.operand(c.args[1]), ev.operand(c.args[2])
            if exp is not TOP and new is not TOP and new == exp + Aff.const(-1):
                oke, _ = ok_edge(tr, c)
                if oke and dominated_by_edge(tr, pt, [oke]):
                    dec = (c, exp)
        if not dec:
            why.append("not dominated by a successful size_ctl CAS sc -> sc-1")
        # (2) equal edge of (sc - 2) == resize_stamp(n) << SHIFT
        stamp_ok = False
        SHIFT = facts.const("RESIZE_STAMP_SHIFT")
        for blk in range(len(tr.blocks)):
            cd = cond_of(tr, blk)
            if not cd or cd["kind"] != "cmp" or cd["op"] not in ("Ne", "Eq"):
                continue
            a, b = ev.operand(cd["a"]), ev.operand(cd["b"])
            if a is TOP or b is TOP or not dec:
                continue
            for x, y in ((a, b), (b, a)):
                is_stamp = len(y.symbols()) == 1 and y.c == 0 and all(
                    s[0] == "call" and callee_str(tr.call_at(s[1])).endswith("resize_stamp") and v == Fraction(2) ** SHIFT for s, v in y.terms.items())
                if x == dec[1] + Aff.const(-2) and is_stamp:
                    eq_edge = cd["true"] if cd["op"] == "Eq" else cd["false"]
                    if dominated_by_edge(tr, pt, [(blk, eq_edge)]):
                        stamp_ok = True
        if not stamp_ok:
            why.append("not on the equal edge of (sc - 2) == resize_stamp(n) << RESIZE_STAMP_SHIFT")
        ctx.inst("Z1", tr, "finisher election", tr.span_at(pt), not why,
                 "`finishing = true` only after a won sc -> sc-1 CAS by the last participant" if not why else
                 "`%s` can become true %s: more than one thread (or an early one) can publish" % (tr.local_name(F), " and ".join(why)))
    if not trues:
        ctx.inst("Z1", tr, "finisher election", tr.span, False, "the gate is never set to true")


def rule_z13(ctx, facts):
    """the new table is *published*: the stores / swap of the publication block (next_table := null, table := next, new threshold) are at
    least Release, so that a thread whose first contact with the finished resize is a load of HashMap.table sees the table's contents
    (rule H1 of C15 on exactly these effects)"""
    from .rules_c15 import ordering_of, RANK_STORE
    tr = facts.body("map::HashMap::transfer")
    effs = [(c, "next_table.store") for c in tr.calls if is_reclaim_atomic(c) == "store" and ("map::HashMap", "next_table") in receiver_field(tr, c, 0)]
    effs += [(c, "table.swap") for c in tr.calls if is_reclaim_atomic(c) == "swap" and ("map::HashMap", "table") in receiver_field(tr, c, 0)]
    effs += [(c, "next_table.swap") for c in tr.calls if is_reclaim_atomic(c) == "swap" and ("map::HashMap", "next_table") in receiver_field(tr, c, 0)]
    effs += [(c, "size_ctl.store") for c in field_calls(tr, lambda c: is_std_atomic(c) == "store", ("map::HashMap", "size_ctl"))]
    effs = [(c, w) for c, w in effs if not tr.is_cleanup(c.b)]
    if len(effs) < 3:
        ctx.fail_closed("Z13: publication effects of transfer not found")
        return
    for c, w in effs:
        ords = [o for o in (ordering_of(tr, a) for a in c.args) if isinstance(o, str)]
        ok = bool(ords) and RANK_STORE.get(ords[0], 0) >= 1
        ctx.inst("Z13", tr, "%s is a publishing write" % w, c.span, ok,
                 "ordering %s" % ords[0] if ok else
                 "%s uses ordering %s: its store half does not release what the resize wrote, so a thread that first learns of the new table "
                 "by loading this word races with the table's construction" % (w, ords[0] if ords else "?"))


def rule_z2_z3(ctx, facts):
    tr = facts.body("map::HashMap::transfer")
    ev = evaluator(tr)
    news = [c for c in tr.calls if callee_str(c).endswith("raw::Table::new") and not tr.is_cleanup(c.b)]
    for c in news:
        f = ev.operand(c.args[0])
        ok = f is not TOP and len(f.symbols()) == 1 and f.c == 0 and all(
            s[0] == "call" and callee_str(tr.call_at(s[1])).endswith("Table::len") and v == 2 for s, v in f.terms.items())
        ctx.inst("Z2", tr, "new table length", c.span, ok, "2 * old length" if ok else
                 "the next table is allocated with length %s instead of twice the old length" % (f.show(tr) if f is not TOP else "?"))
    # the transfer index starts at the old length
    ti = field_calls(tr, lambda c: is_std_atomic(c) == "store", ("map::HashMap", "transfer_index"))
    for c in ti:
        f = ev.operand(c.args[1])
        ok = f is not TOP and len(f.symbols()) == 1 and f.c == 0 and all(
            s[0] == "call" and callee_str(tr.call_at(s[1])).endswith("Table::len") and v == 1 for s, v in f.terms.items())
        ctx.inst("Z2", tr, "transfer_index start", c.span, ok, "starts at the old length" if ok else "transfer_index starts at %s" % (f.show(tr) if f is not TOP else "?"))
    # Z3 is rule K4 of C14 (same code); re-evaluated here
    from .rules_c14 import rule_k3_k4
    before = len(ctx.instances)
    rule_k3_k4(ctx, facts)
    kept = []
    for i in ctx.instances[before:]:
        if i.rule == "K4" and i.what.startswith("cap guard"):
            i.rule = "Z3"
            kept.append(i)
    ctx.instances[before:] = kept


def rule_z4(ctx, facts):
    B, S, W, M = (facts.const("RESIZE_STAMP_BITS"), facts.const("RESIZE_STAMP_SHIFT"), facts.const("ISIZE_BITS"), facts.const("MAX_RESIZERS"))
    ctx.inst("Z4", "map::RESIZE_STAMP_BITS", "bits + shift = word", "src/map.rs", B + S == W, "%d + %d == %d" % (B, S, W) if B + S == W else
             "RESIZE_STAMP_BITS + RESIZE_STAMP_SHIFT = %d, word size %d" % (B + S, W))
    # MAX_RESIZERS is deliberately not constrained: a value that overflows the count field (or a tiny one) only matters with more than
    # 2^shift - 2 simultaneous helpers resp. limits helping; no clause of C10 depends on it (mutant audit, DESIGN 6.5)
    ctx.inst("Z4", "map::MAX_RESIZERS", "MAX_RESIZERS (informational)", "src/map.rs", True, "%d (field holds up to %d)" % (M, (1 << S) - 1), nontrivial=False)
    rs = facts.body("map::HashMap::resize_stamp")
    ev = evaluator(rs)
    ok = False
    seen = None
    for blk in rs.blocks:
        for st in blk["stmts"]:
            if st["k"] == "assign" and st["rv"].get("bin") == "BitOr":
                for o in (st["rv"]["a"], st["rv"]["b"]):
                    f = ev.operand(o)
                    if f is not TOP and f.is_const():
                        seen = int(f.c)
                        if f.c == 1 << (B - 1):
                            ok = True
    lz = any(callee_str(c).endswith("leading_zeros") for c in rs.calls)
    ctx.inst("Z4", rs, "stamp sets bit STAMP_BITS-1", rs.span, ok and lz,
             "leading_zeros(n) | 1 << %d: negative once shifted by %d" % (B - 1, S) if ok and lz else
             "resize_stamp ors in %s (expected 1 << %d): the shifted stamp is not negative / collides with the resizer count" % (seen, B - 1))
    W_, WA, R = facts.const("WRITER"), facts.const("WAITER"), facts.const("READER")
    okb = all(x > 0 and x & (x - 1) == 0 for x in (W_, WA, R)) and len({W_, WA, R}) == 3 and R > W_ and R > WA
    ctx.inst("Z4", "node::READER", "lock-word bits", "src/node.rs", okb, "WRITER=%d WAITER=%d READER=%d distinct bits, READER above both" % (W_, WA, R))


def helper_cas(body, ev):
    """size_ctl CAS whose new value is expected + 1"""
    out = []
    for c in size_ctl_cas(body):
        exp, new = ev.operand(c.args[1]), ev.operand(c.args[2])
        if exp is not TOP and new is not TOP and new == exp + Aff.const(1):
            out.append((c, exp))
    return out


def initiator_cas(body, ev, facts):
    out = []
    SHIFT = facts.const("RESIZE_STAMP_SHIFT")
    for c in size_ctl_cas(body):
        new = ev.operand(c.args[2])
        if new is not TOP and new.c == 2 and len(new.symbols()) == 1 and all(
                s[0] == "call" and callee_str(body.call_at(s[1])).endswith("resize_stamp") and v == Fraction(2) ** SHIFT for s, v in new.terms.items()):
            out.append(c)
    return out


def rule_z5(ctx, facts):
    tr = facts.body("map::HashMap::transfer")
    for b in facts.bodies:
        if b.id == tr.id or not size_ctl_cas(b):
            continue
        ev = evaluator(b)
        tickets = [(c, "helper sc+1") for c, _ in helper_cas(b, ev)] + [(c, "initiator rs+2") for c in initiator_cas(b, ev, facts)]
        for c, kind in tickets:
            oke, erre = ok_edge(b, c)
            calls = {x.point for x in b.calls if x.resolved == tr.id}
            if not oke:
                ctx.inst("Z5", b, "%s ticket" % kind, c.span, False, "the result of the CAS is not tested")
                continue
            r = reach(b, [Point(oke[1], 0)], avoid=calls)
            leaks = [rp for rp in return_points(b) if rp in r] + ([c.point] if c.point in r else [])
            ctx.inst("Z5", b, "%s ticket" % kind, c.span, not leaks,
                     "every path from the won CAS reaches transfer" if not leaks else
                     "after winning the %s CAS a path returns/loops without calling transfer: the resizer count is never given back and the resize never finishes" % kind)
    ev = evaluator(tr)
    dec = None
    for c in size_ctl_cas(tr):
        exp, new = ev.operand(c.args[1]), ev.operand(c.args[2])
        if exp is not TOP and new is not TOP and new == exp + Aff.const(-1):
            dec = c
    if not dec:
        ctx.inst("Z5", tr, "ticket returned", tr.span, False, "transfer has no size_ctl CAS sc -> sc-1")
        return
    oke, _ = ok_edge(tr, dec)
    # edges that can only be taken after the CAS was won: the Ok edge itself, and the true edge of any boolean that is set to true
    # only under the Ok edge (the `finishing` flag: path-insensitively its test precedes the CAS in the loop)
    gated = [oke] if oke else []
    for blk in range(len(tr.blocks)):
        cd = cond_of(tr, blk)
        if cd and cd["kind"] == "bool" and oke:
            F = cd["local"]
            tdefs = [pt for pt, kind, data in tr.defs.get(F, []) if not (kind == "assign" and "use" in data["rv"] and data["rv"]["use"].get("int") == 0)]
            if tdefs and all(dominated_by_edge(tr, pt, [oke]) for pt in tdefs):
                gated.append((blk, cd["true"]))
    bad = [rp for rp in return_points(tr) if not (oke and dominated_by_edge(tr, rp, gated))]
    ctx.inst("Z5", tr, "ticket returned on every exit", dec.span, not bad,
             "every return of transfer is dominated by the won sc -> sc-1 CAS" if not bad else
             "transfer can return at %s without decrementing the resizer count" % tr.span_at(bad[0]))


def rule_z6(ctx, facts):
    MAXR = facts.const("MAX_RESIZERS")
    SHIFT = facts.const("RESIZE_STAMP_SHIFT")
    found = {}
    tr_id = facts.body("map::HashMap::transfer").id
    joiners = [b for b in facts.bodies if b.id != tr_id and helper_cas(b, evaluator(b))]
    if len(joiners) < 2:
        ctx.fail_closed("Z6: expected the two joining sites (help_transfer, add_count), found %d" % len(joiners))
    for b in joiners:
        ev = evaluator(b)

        def is_rs(f, extra, b=b):
            return f is not TOP and f.c == extra and len(f.symbols()) == 1 and all(
                s[0] == "call" and callee_str(b.call_at(s[1])).endswith("resize_stamp") and v == Fraction(2) ** SHIFT for s, v in f.terms.items())
        for cas, sc in helper_cas(b, ev):
            atoms = {"sign": False, "max_resizers": False, "plus_one": False, "transfer_index": False, "generation": False}

            def stamp_part(op):
                """'sc' / 'rs' when the operand is the stamp part (bits above RESIZE_STAMP_SHIFT) of sc resp. of this table's stamp:
                x >> SHIFT, (x >> SHIFT) << SHIFT, or x & <mask of the high bits>; rs itself counts as its own stamp part"""
                l = op_local(op)
                if l is None:
                    return None
                f = ev.local(l)
                if f is not TOP and is_rs(f, 0):
                    return "rs"
                seen_l = set()
                shr = False
                while l is not None and l not in seen_l:
                    seen_l.add(l)
                    f = ev.local(l)
                    if f is not TOP and is_rs(f, 0):
                        return "rs"
                    ds = [d for d in b.defs.get(l, []) if d[1] == "assign"]
                    if len(ds) != 1:
                        break
                    rv = ds[0][2]["rv"]
                    if "use" in rv:
                        l = op_local(rv["use"])
                        continue
                    op2 = rv.get("bin", "")
                    if op2 in ("Shr", "ShrUnchecked") and rv["b"].get("int") == SHIFT:
                        shr = True
                        l = op_local(rv["a"])
                        continue
                    if op2 in ("Shl", "ShlUnchecked") and rv["b"].get("int") == SHIFT:
                        l = op_local(rv["a"])
                        continue
                    if op2 == "BitAnd":
                        fa, fb = ev.operand(rv["a"]), ev.operand(rv["b"])
                        masks = [(fa, rv["b"]), (fb, rv["a"])]
                        nxt = None
                        for m, other in masks:
                            if m is not TOP and m.is_const() and m.c.denominator == 1 and int(m.c) != 0 and int(m.c) & ((1 << SHIFT) - 1) == 0:
                                nxt = op_local(other)
                        if nxt is None:
                            break
                        shr = True
                        l = nxt
                        continue
                    break
                if not shr or l is None:
                    return None
                f = ev.local(l)
                if f is not TOP and f == sc:
                    return "sc"
                if f is not TOP and is_rs(f, 0):
                    return "rs"
                return None
            for blk in range(len(b.blocks)):
                cd = cond_of(b, blk)
                if not cd or cd["kind"] != "cmp":
                    continue
                a, bb = ev.operand(cd["a"]), ev.operand(cd["b"])
                T, F = (blk, cd["true"]), (blk, cd["false"])
                op = cd["op"]
                if op in ("Ne", "Eq") and {stamp_part(cd["a"]), stamp_part(cd["b"])} == {"sc", "rs"}:
                    same_edge = F if op == "Ne" else T
                    if dominated_by_edge(b, cas.point, [same_edge]):
                        atoms["generation"] = True
                if a is TOP or bb is TOP:
                    continue
                if a == sc and bb.is_const() and bb.c == 0:
                    if op == "Ge" and dominated_by_edge(b, cas.point, [F]):
                        atoms["sign"] = True
                    if op == "Lt" and dominated_by_edge(b, cas.point, [T]):
                        atoms["sign"] = True
                if op == "Eq" and a == sc and is_rs(bb, MAXR) and dominated_by_edge(b, cas.point, [F]):
                    atoms["max_resizers"] = True
                if op == "Eq" and a == sc and is_rs(bb, 1) and dominated_by_edge(b, cas.point, [F]):
                    atoms["plus_one"] = True
                if op == "Le" and bb.is_const() and bb.c == 0 and len(a.symbols()) == 1:
                    s0 = next(iter(a.symbols()))
                    lc = b.call_at(s0[1]) if s0[0] == "call" else None
                    if lc is not None and is_std_atomic(lc) == "load" and ("map::HashMap", "transfer_index") in receiver_field(b, lc, 0) \
                            and dominated_by_edge(b, cas.point, [F]):
                        atoms["transfer_index"] = True
            # the same atoms from the linear facts that dominate the CAS, whatever operator / operand order / negation spelt them
            from .affine import facts_at
            for kind, lin, bound, blk in facts_at(b, cas.point):
                if kind == "le":
                    # sc <= -1
                    if lin == sc and bound <= -1:
                        atoms["sign"] = True
                    # transfer_index >= 1  <=>  -ti <= -1
                    if len(lin.symbols()) == 1:
                        s0 = next(iter(lin.symbols()))
                        lc = b.call_at(s0[1]) if s0[0] == "call" else None
                        if lc is not None and is_std_atomic(lc) == "load" and ("map::HashMap", "transfer_index") in receiver_field(b, lc, 0) \
                                and lin.coeff(s0) == -1 and bound - lin.c <= -1:
                            atoms["transfer_index"] = True
                elif kind == "ne":
                    for sign in (1, -1):
                        d = lin.scale(sign)
                        # sc - (rs + k) != 0
                        rest = sc - d          # = rs + k  when d = sc - rs - k
                        if rest is not TOP and is_rs(rest, MAXR):
                            atoms["max_resizers"] = True
                        if rest is not TOP and is_rs(rest, 1):
                            atoms["plus_one"] = True
            found[b.id + "@" + cas.span] = atoms
            miss = [k for k, v in atoms.items() if not v]
            ctx.inst("Z6", b, "refusals before joining", cas.span, not miss,
                     "sign of sc, stamp(sc) == stamp of this table, sc == rs + MAX_RESIZERS, sc == rs + 1, transfer_index <= 0 (rs = resize_stamp(len) << SHIFT) "
                     "all dominate the joining CAS on their refusing edge" if not miss else
                     "the joining CAS sc -> sc+1 is not guarded by: %s (with rs = resize_stamp(len) << RESIZE_STAMP_SHIFT): a thread can join a resize that "
                     "is full or already being committed" % ", ".join(miss))
    vals = list(found.values())
    same = bool(vals) and all(v == vals[0] for v in vals)
    ctx.inst("Z6", "map::HashMap::help_transfer", "sibling agreement", "src/map.rs", same and len(vals) >= 2,
             "all %d joining sites agree on the refusals" % len(vals) if same else "the joining rules differ between sites: %s" % {strip_generics(k): v for k, v in found.items()})


def index_local(tr, ev):
    """the bin index of transfer's loop: the named isize local one of whose definitions is `itself - 1`"""
    for l in range(len(tr.locals)):
        if tr.local_name(l) and tr.ty(l)["s"] == "isize":
            for pt, f in ev.def_forms(l):
                if f is not TOP and f == Aff({("phi", l): 1}, -1):
                    return l, pt
    return None, None


def rule_z7(ctx, facts):
    """stride claiming, necessary conditions only.  Which bins a participant works on after a claim is NOT checked: overlapping or
    skipped ranges are harmless, because a bin is moved under its lock only if it is not yet forwarded and the finisher sweeps the
    whole table before publishing (Z9).  What claiming must guarantee is progress: transfer_index strictly decreases with every won
    claim and claiming stops at <= 0, else transfer never returns and the resize never completes."""
    tr = facts.body("map::HashMap::transfer")
    ev = evaluator(tr)
    TI = ("map::HashMap", "transfer_index")
    cass = [c for c in tr.calls if is_std_atomic(c) == "compare_exchange" and TI in receiver_field(tr, c, 0) and not tr.is_cleanup(c.b)]
    loads = [c for c in tr.calls if is_std_atomic(c) == "load" and TI in receiver_field(tr, c, 0) and not tr.is_cleanup(c.b)]
    if len(cass) != 1 or not loads:
        ctx.fail_closed("Z7: expected one CAS and a load of transfer_index in transfer, found %d/%d" % (len(cass), len(loads)))
        return
    cas = cass[0]
    exp, new = ev.operand(cas.args[1]), ev.operand(cas.args[2])
    L = None
    for l in loads:
        if exp is not TOP and exp == Aff.sym(("call", l.b)):
            L = l
    ctx.inst("Z7", tr, "claim CAS expects the freshly loaded index", cas.span, L is not None,
             "expected value is the transfer_index load at %s" % L.span if L else "the stride-claim CAS does not expect the value it has just loaded from transfer_index")
    if L is None:
        return
    Ls = Aff.sym(("call", L.b))
    # claiming stops at <= 0: the CAS is only attempted on the false edge of next_index <= 0 (true edge of > 0)
    pos = False
    for blk in range(len(tr.blocks)):
        cd = cond_of(tr, blk)
        if not cd or cd["kind"] != "cmp":
            continue
        a, b2 = ev.operand(cd["a"]), ev.operand(cd["b"])
        if a is TOP or b2 is TOP:
            continue
        op = cd["op"]
        if b2 == Ls and a.is_const():
            a, b2, op = b2, a, {"Lt": "Gt", "Le": "Ge", "Gt": "Lt", "Ge": "Le"}.get(op, op)
        if a == Ls and b2.is_const():
            edge = None
            if (op == "Le" and b2.c == 0) or (op == "Lt" and b2.c == 1):
                edge = cd["false"]
            elif (op == "Gt" and b2.c == 0) or (op == "Ge" and b2.c == 1):
                edge = cd["true"]
            if edge is not None and dominated_by_edge(tr, cas.point, [(blk, edge)]):
                pos = True
    ctx.inst("Z7", tr, "claiming stops at transfer_index <= 0", cas.span, pos,
             "the claim CAS is attempted only when the loaded index is positive" if pos else
             "the claim CAS is attempted although the loaded transfer_index may be <= 0: a participant can claim the empty range for ever")
    # new value strictly below the expected one (and 0 only when the expected one was positive)
    def lower_bound(body, f, depth=0):
        """a constant c with f >= c, or None"""
        if f is TOP or depth > 6:
            return None
        e2 = evaluator(body)
        lb = f.c
        for sym, coef in f.terms.items():
            if coef < 0:
                return None
            sl = None
            if sym[0] == "call":
                c = body.call_at(sym[1])
                cs = callee_str(c)
                if cs.endswith("cmp::max") or cs.endswith("Ord::max"):
                    bs = [lower_bound(body, e2.operand(a), depth + 1) for a in c.args]
                    bs = [x for x in bs if x is not None]
                    sl = max(bs) if bs else None
                else:
                    tb = facts.by_id.get(c.resolved)
                    if tb is not None and tb.kind != "Closure":
                        e3 = evaluator(tb)
                        bs = [lower_bound(tb, g, depth + 1) for _, g in e3.def_forms(0)]
                        sl = min(bs) if bs and all(x is not None for x in bs) else None
            elif sym[0] == "phi":
                bs = [lower_bound(body, g, depth + 1) for _, g in e2.def_forms(sym[1])]
                sl = min(bs) if bs and all(x is not None for x in bs) else None
            if sl is None:
                return None
            lb += coef * sl
        return lb

    def below(f, depth=0):
        """f < Ls on every path (given Ls > 0 when `pos`)"""
        if f is TOP or depth > 4:
            return False
        if f.is_const():
            return f.c <= 0 and pos
        # max(a, b) < Ls  iff  a < Ls and b < Ls
        if len(f.symbols()) == 1 and f.c == 0:
            s0 = next(iter(f.symbols()))
            if s0[0] == "call" and f.coeff(s0) == 1:
                c = tr.call_at(s0[1])
                cs = callee_str(c)
                if cs.endswith("cmp::max") or cs.endswith("Ord::max"):
                    return all(below(ev.operand(a), depth + 1) for a in c.args)
                if cs.endswith("cmp::min") or cs.endswith("Ord::min"):
                    return any(below(ev.operand(a), depth + 1) for a in c.args)
            if s0[0] == "phi" and f.coeff(s0) == 1:
                fs = ev.def_forms(s0[1])
                return bool(fs) and all(below(g, depth + 1) for _, g in fs)
        rest = Ls - f          # must be >= 1
        lb = lower_bound(tr, rest)
        return lb is not None and lb >= 1

    forms = [(cas.point, new)] if new is not TOP else []
    ok_forms = bool(forms) and all(below(f) for _, f in forms)
    desc = [f.show(tr) if f is not TOP else "?" for _, f in forms]
    ctx.inst("Z7", tr, "every won claim lowers transfer_index", cas.span, ok_forms,
             "the new value is below the loaded one on every path: %s" % desc if ok_forms else
             "the new transfer_index is %s, which is not provably below the loaded value: claiming makes no progress" % desc)
    I, dpt = index_local(tr, ev)
    ctx.inst("Z7", tr, "index steps down by one", tr.span_at(dpt) if dpt else tr.span, I is not None,
             "i -= 1 per processed bin" if I is not None else "the bin index is not decremented by exactly one: the sweep skips bins or does not end")


def rule_z9(ctx, facts):
    """the thread elected to finish sweeps the whole old table before it publishes: from `finishing = true`, every feasible path to the
    publication passes `i := len(old table)` and then the decrement that starts the downward sweep (bool flags such as `advance` are
    tracked, so forgetting to re-enable the decrement loop is seen).  Without the sweep, bins claimed by participants that left early
    (and, in this port, the initiator's first stride) are published unmigrated."""
    from .esp import Esp, Spec
    tr = facts.body("map::HashMap::transfer")
    ev = evaluator(tr)
    fl = flow(tr)
    I, dpt = index_local(tr, ev)
    e1 = [c for c in tr.calls if is_reclaim_atomic(c) == "store" and ("map::HashMap", "next_table") in receiver_field(tr, c, 0) and not tr.is_cleanup(c.b)]
    e2 = [c for c in tr.calls if is_reclaim_atomic(c) == "swap" and ("map::HashMap", "table") in receiver_field(tr, c, 0) and not tr.is_cleanup(c.b)]
    if I is None or not e2:
        ctx.fail_closed("Z9: bin index or table swap not found in transfer")
        return
    pubs = {c.point for c in e1 + e2}
    gate = None
    for blk in range(len(tr.blocks)):
        cd = cond_of(tr, blk)
        if cd and cd["kind"] == "bool" and all(dominated_by_edge(tr, p, [(blk, cd["true"])]) for p in pubs):
            gate = (blk, cd)
    if gate is None:
        ctx.fail_closed("Z9: publication is not gated by a boolean (see Z1)")
        return
    F = gate[1]["local"]
    # length of the table being emptied: Table::len on the table parameter
    N = None
    for c in tr.calls:
        if callee_str(c).endswith("Table::len") and c.args and op_root(c.args[0]) is not None and fl.derives_from_arg(op_root(c.args[0]), 2):
            N = Aff.sym(("call", c.b))
            break
    if N is None:
        ctx.fail_closed("Z9: length of the old table (Table::len on transfer's table parameter) not found")
        return
    # the index may live in several locals connected by plain copies (a helper that takes it by value and hands it back)
    Iset = {l for l in fl.copies_of(I) if tr.ty(l)["s"] == "isize"} | {I}
    arm = {}
    dec = set()
    for l in Iset:
        for pt, f in ev.def_forms(l):
            if f is not TOP and f == N:
                arm[pt] = True
            if f is not TOP and len(f.symbols()) == 1 and f.c == -1:
                s0 = next(iter(f.symbols()))
                if f.coeff(s0) == 1 and (s0 == ("phi", l) or (s0[0] == "phi" and s0[1] in Iset)):
                    dec.add(pt)
            # i' = i - 1 where i is another member of the set (single-definition temporaries are already folded by the evaluator)

    class Sweep(Spec):
        def __init__(self):
            self.bad = None

        def on_stmt(self, pt, st, ts, env):
            if ts == "sweeping":
                return []
            if pt in arm:
                return ["armed"]
            if pt in dec:
                return ["sweeping"] if ts == "armed" else [ts]
            if st["k"] == "assign" and not st["dst"]["proj"] and st["dst"]["local"] in Iset and ts == "armed" \
                    and not ("use" in st["rv"] and op_root(st["rv"]["use"]) in Iset):
                return ["elected"]
            return [ts]

        def on_call(self, pt, c, ts, env):
            if ts == "sweeping":
                return []
            if pt in pubs and self.bad is None:
                self.bad = (pt, ts)
            return [ts]

    trues = [pt for pt, kind, data in tr.defs.get(F, []) if kind == "assign" and not ("use" in data["rv"] and data["rv"]["use"].get("int") == 0)]
    if not trues:
        ctx.fail_closed("Z9: the finisher flag is never set")
    for pt in trues:
        spec = Sweep()
        esp = Esp(tr, spec, extra_flags={F})
        esp.run(start_pt=pt, init_ts="elected")
        ok = spec.bad is None
        ctx.inst("Z9", tr, "finisher sweeps the whole table before publishing", tr.span_at(pt), ok,
                 "from `%s = true` every feasible path to the publication sets i := len(old table) and enters the downward sweep" % tr.local_name(F) if ok else
                 "the publication at %s is reachable from `%s = true` %s: bins that nobody migrated (ranges given up by participants that "
                 "left early) are dropped with the old table" % (tr.span_at(spec.bad[0]), tr.local_name(F),
                 "without resetting the index to the table length" if spec.bad[1] == "elected" else "without re-entering the decrement loop after the reset"))


def rule_z8(ctx, facts):
    """generations never overlap: the table an initiator hands to transfer(table, null) belongs to the generation whose size_ctl value
    its ticket CAS expects -- it was loaded after that size_ctl value was read, or is re-validated against the current table pointer
    between that read and the CAS.  (A stale table paired with a fresh threshold restarts a finished resize over an empty table.)"""
    from .analysis import dominates
    tr = facts.body("map::HashMap::transfer")
    n = 0
    for b in facts.bodies:
        if b.id == tr.id:
            continue
        ev = evaluator(b)
        fl = flow(b)
        inits = initiator_cas(b, ev, facts)
        for cas in inits:
            oke, _ = ok_edge(b, cas)
            if not oke:
                continue
            exp = ev.operand(cas.args[1])
            sc_loads = [b.call_at(s0[1]) for s0 in (exp.symbols() if exp is not TOP else []) if s0[0] == "call"]
            sc_loads = [x for x in sc_loads if x is not None and is_std_atomic(x) == "load" and ("map::HashMap", "size_ctl") in receiver_field(b, x, 0)]
            calls = [c for c in b.calls if c.resolved == tr.id and dominated_by_edge(b, c.point, [oke])]
            for c in calls:
                n += 1
                tl = op_root(c.args[1])
                tloads = [x for x in fl.call_roots(tl) if x is not None and is_reclaim_atomic(x) == "load" and ("map::HashMap", "table") in receiver_field(b, x, 0)] if tl is not None else []
                if not sc_loads or not tloads:
                    ctx.inst("Z8", b, "initiator's table belongs to its size_ctl generation", c.span, False,
                             "cannot relate the table passed to transfer to a load of the table pointer, or the CAS's expected value to a load of size_ctl")
                    continue
                after_sc = all(any(dominates(b, s.point, t.point) and not dominates(b, t.point, s.point) for s in sc_loads) for t in tloads)
                # or: re-validated between the size_ctl read and the CAS
                reval = False
                for blk in range(len(b.blocks)):
                    cd = cond_of(b, blk)
                    if cd and cd["kind"] == "ptr_eq":
                        for mine, other in ((cd["a"], cd["b"]), (cd["b"], cd["a"])):
                            if mine is None or other is None or not (fl.copies_of(mine) & fl.copies_of(tl) or mine in fl.closure_locals(tl)):
                                continue
                            fresh = [x for x in fl.call_roots(other) if x is not None and is_reclaim_atomic(x) == "load" and ("map::HashMap", "table") in receiver_field(b, x, 0)]
                            if fresh and all(any(dominates(b, s.point, x.point) for s in sc_loads) for x in fresh) and dominated_by_edge(b, cas.point, [(blk, cd["true"])]):
                                reval = True
                ok = after_sc or reval
                ctx.inst("Z8", b, "initiator's table belongs to its size_ctl generation", c.span, ok,
                         ("table loaded after the size_ctl value the ticket CAS expects" if after_sc else "table re-validated against the current pointer after size_ctl was read") if ok else
                         "the table handed to transfer(table, null) was loaded at %s before the size_ctl value the CAS expects was read at %s, and is not re-validated "
                         "in between: a stale table can be paired with the threshold of a finished resize, which restarts that resize over an empty table and "
                         "publishes it over the live one" % (tloads[0].span, sc_loads[0].span))
    if n < 2:
        ctx.fail_closed("Z8: expected the two initiating transfer calls (add_count, try_presize), found %d" % n)


def rule_z15(ctx, facts):
    """the walks that copy an old bin into its successor are exhaustive: a loop that allocates a fresh node per visited node and advances
    its cursor by following `next` is left only through a test of that cursor itself (null, or equal to its sentinel) -- not, say, when
    the *successor* is null, which leaves the last node of the bin uncopied while the bin is replaced by the forwarding marker"""
    from .analysis import back_edges, loop_blocks, regions
    from .anchors import is_fresh_alloc, is_link_load
    n = 0
    for name in ("HashMap::transfer", "HashMap::treeify_bin", "HashMap::untreeify"):
        b = facts.body(name)
        fl = flow(b)
        locks = {r.call.b for r in regions(b)}
        for be in back_edges(b, unwind=False):
            tail, head = be
            L = loop_blocks(b, be, unwind=False)
            if b.is_cleanup(head) or (locks & set(L)):
                continue          # the outer (per-bin) loops take locks; the walks do not
            allocs = [c for c in b.calls if c.b in L and is_fresh_alloc(b, c) and "node::BinEntry" in b.ty(c.dst_local()).get("s", "")]
            walks = [c for c in b.calls if c.b in L and is_link_load(c) == "load" and ("node::Node", "next") in receiver_field(b, c, 0)]
            if not allocs or not walks:
                continue
            # the cursor: a local defined both inside and outside the loop whose inside definition derives from a `next` load of the walk
            carried = set()
            for l in range(len(b.locals)):
                ds = [d for d in b.defs.get(l, []) if d[1] in ("assign", "call")]
                if not (any(d[0][0] in L for d in ds) and any(d[0][0] not in L for d in ds)):
                    continue
                if any(x is not None and x.point in {w.point for w in walks} for x in fl.call_roots(l)):
                    carried.add(l)
            if not carried:
                continue
            # ... and, among those, the one the copied node is read from (what the fresh node is built of derives from it, through the
            # constructor calls): a look-ahead `next` is carried too but is not the cursor
            src = set()
            stack = [op_root(a) for c in allocs for a in c.args if op_root(a) is not None]
            while stack and len(src) < 400:
                x = stack.pop()
                if x in src:
                    continue
                src.add(x)
                if x in carried:
                    continue          # reached a carried local: that is the cursor; what IT was assigned from is not
                for kind, data, pt in fl.sources(x):
                    if kind == "copy":
                        stack.append(data)
                    elif kind in ("ref", "field", "discr"):
                        stack.append(data["local"])
                    elif kind == "view":
                        stack.append(data[1])
                    elif kind == "agg":
                        stack += [op_root(o) for o in data["rv"]["ops"] if op_root(o) is not None]
                    elif kind == "call" and pt[0] in L:
                        stack += [op_root(a) for a in data.args if op_root(a) is not None]
            if carried & src:
                carried = carried & src
            n += 1
            outside = [x for x in range(len(b.blocks)) if x not in L]
            inloop = reach(b, [Point(head, 0)], avoid_blocks=outside, unwind=False)
            bad = None
            for u in sorted(L):
                if b.term_point(u) not in inloop:
                    continue
                for v, lab in b.term_succ(u, False):
                    if v in L:
                        continue
                    cd = cond_of(b, u)
                    ok_exit = False
                    def is_cursor(x):
                        """x is the cursor or a temporary copied FROM it (not something the cursor is assigned from)"""
                        seen0, st0 = set(), [x]
                        while st0:
                            y = st0.pop()
                            if y is None or y in seen0:
                                continue
                            seen0.add(y)
                            if y in carried:
                                return True
                            for k0, d0, _ in fl.sources(y):
                                if k0 == "copy":
                                    st0.append(d0)
                        return False
                    if cd and cd["kind"] == "is_null" and cd.get("arg") is not None and is_cursor(cd["arg"]) and cd["true"] == v:
                        ok_exit = True
                    if cd and cd["kind"] == "ptr_eq" and (is_cursor(cd.get("a")) or is_cursor(cd.get("b"))):
                        ok_exit = True
                    if b.term(v)["k"] == "unreachable" or (b.call_at(v) is not None and b.call_at(v).target is None):
                        ok_exit = True
                    if not ok_exit:
                        bad = (u, v)
            ctx.inst("Z15", b, "copy walk over `%s`" % "/".join(sorted(b.local_name(l) or "_%d" % l for l in carried)),
                     b.term(bad[0])["span"] if bad else b.term(head)["span"], bad is None,
                     "left only when the cursor is null or has reached its sentinel" if bad is None else
                     "the loop that copies the nodes of an old bin can be left at %s on a test that is not a test of its cursor: nodes that were not "
                     "visited are not copied, yet the bin is then replaced by the forwarding marker" % b.term(bad[0])["span"])
    if n < 3:
        ctx.fail_closed("Z15: expected the copy walks of transfer (list and tree arm), treeify_bin and untreeify, found %d" % n)


def rule_z16(ctx, facts):
    """after taking part in a resize add_count looks at a FRESH count: every path from the return of a `transfer` call to the next load of
    size_ctl (the next round of the loop) passes a load of HashMap.count.  Threads that inserted while the resize ran were turned away
    (`sc == rs + 1`, no next table ...), so the participant that comes back is the one that has to notice that the threshold of the new
    table has been crossed as well; with the count it computed before the resize it returns, and the map sits above its load factor
    until some later insert happens to come along."""
    from .rules_c14 import find_size_ctl_loads
    from .anchors import is_std_atomic, receiver_field
    ac = facts.body("map::HashMap::add_count")
    tcalls = [c for c in ac.calls if callee_str(c).endswith("HashMap::transfer") and not ac.is_cleanup(c.b)]
    sc_loads = {c.point for c in find_size_ctl_loads(ac)}
    cnt_loads = {c.point for c in ac.calls if is_std_atomic(c) == "load" and ("map::HashMap", "count") in receiver_field(ac, c, 0)}
    if not tcalls or not sc_loads:
        ctx.fail_closed("Z16: expected calls of transfer and a size_ctl load in add_count (found %d, %d)" % (len(tcalls), len(sc_loads)))
        return
    for c in tcalls:
        r = reach(ac, after(ac, c.point, label="ret"), avoid=cnt_loads, unwind=False)
        stale = sorted(p for p in sc_loads if p in r)
        ctx.inst("Z16", ac, "count re-read after transfer at %s" % c.span.split(":", 1)[1], c.span, not stale,
                 "every path from the resize back to the threshold test reloads the count" if not stale else
                 "after the resize joined / started at %s the loop tests size_ctl again (%s) with the count computed before the resize: inserts "
                 "that were turned away meanwhile are never acted on, and the map stays above its load threshold" % (c.span, ac.span_at(stale[0])))


def rule_z17(ctx, facts, rule="Z17"):
    """an operation that raises the count asks add_count to look at the threshold: every call `add_count(n, hint, ..)` with a positive
    delta passes `Some(_)` as the resize hint (`None` means: adjust the counter only, never compare it with size_ctl).  An insert that
    passes None can carry the count across the threshold without anybody starting the resize."""
    from .rules_c17 import passes_none
    from .affine import evaluator, TOP
    ac = facts.body("map::HashMap::add_count")
    hint_k = [k for k in range(1, ac.nargs + 1) if ac.ty(k).get("s", "").startswith("std::option::Option<usize>")]
    delta_k = [k for k in range(1, ac.nargs + 1) if ac.ty(k).get("s") == "isize"]
    if len(hint_k) != 1 or len(delta_k) != 1:
        ctx.fail_closed("%s: add_count(isize, Option<usize>, ..) not recognised" % rule)
        return
    n = 0
    for b in facts.bodies:
        for c in b.calls:
            if c.resolved != ac.id or b.is_cleanup(c.b):
                continue
            d = evaluator(b).operand(c.args[delta_k[0] - 1])
            if d is TOP or not d.is_const() or d.c <= 0:
                continue
            n += 1
            none = passes_none(facts, b, c, hint_k[0])
            ctx.inst(rule, b, "add_count(+%s) asks for the threshold test" % d.c, c.span, not none,
                     "the hint is Some(_)" if not none else
                     "an entry is added to the count with the resize hint None: add_count then never compares the count with size_ctl, and the "
                     "insert that crosses the load threshold does not start the resize")
    if n < 2:
        ctx.fail_closed("%s: expected the two add_count(+1, ..) calls of put, found %d" % (rule, n))


def run(ctx, facts):
    ctx.rule("Z17", "every add_count with a positive delta passes Some(hint): an insert always lets add_count compare the count with the threshold", floor=2)
    rule_z17(ctx, facts)
    ctx.rule("Z16", "add_count re-reads the count after every resize it took part in, before it tests the threshold again", floor=2)
    rule_z16(ctx, facts)
    ctx.rule("Z15", "the walks that copy an old bin are exhaustive: left only through a test of the cursor itself", floor=3)
    rule_z15(ctx, facts)
    ctx.rule("Z14", "an old bin is marked as forwarded only after both halves are stored in the new table (rule L3 of C01): a bin counts as "
                    "migrated for everybody who meets the marker, so the marker must not run ahead of the migration", floor=2)
    from .rules_c01 import rule_l3
    rule_l3(ctx, facts, rule="Z14")
    ctx.rule("Z8", "an initiator's table was loaded after (or re-validated after) the size_ctl value its ticket CAS expects", floor=2)
    rule_z8(ctx, facts)
    ctx.rule("Z7", "stride claiming makes progress: CAS(transfer_index, fresh positive next_index -> something smaller); the index steps down by one", floor=4)
    rule_z7(ctx, facts)
    ctx.rule("Z10", "a bin is migrated only under its lock and after re-validating that the locked node is still the bin's head (rule L1 of C01 on transfer)", floor=2)
    from .rules_c01 import rule_l1
    rule_l1(ctx, facts, rule="Z10", only=("map::HashMap::transfer",))
    ctx.rule("Z11", "the initialisation ticket (size_ctl = -1) is given back on every path (rule D4 of C11): otherwise the control word stays negative "
                    "and the table can never grow again", floor=3)
    from .rules_c11 import rule_d4
    rule_d4(ctx, facts, rule="Z11")
    ctx.rule("Z13", "the publication block of transfer writes with at least Release ordering", floor=3)
    rule_z13(ctx, facts)
    ctx.rule("Z12", "the threshold published after a resize (and after every table allocation) is exactly L - floor(L/4) of the new length (rule K2 of C14)", floor=3)
    from .rules_c14 import rule_k2
    from .rules_c03 import relabelled
    relabelled(ctx, facts, rule_k2, "K2", "Z12", only_what="size_ctl threshold")
    ctx.rule("Z9", "the elected finisher sweeps the whole old table (i := len, then downwards) before publishing", floor=1)
    rule_z9(ctx, facts)
    ctx.rule("Z1", "single finisher elected by the last sc-1 CAS; publication block gated, ordered and complete", floor=2)
    ctx.rule("Z2", "next table has twice the old length; transfer index starts at the old length", floor=2)
    ctx.rule("Z3", "resize initiation guarded by len < MAXIMUM_CAPACITY", floor=2)
    ctx.rule("Z4", "bit layout of size_ctl and of the tree-bin lock word from evaluated constants", floor=3)
    ctx.rule("Z5", "tickets: a won rs+2 / sc+1 CAS always leads to transfer; transfer gives the ticket back on every exit", floor=5)
    ctx.rule("Z6", "help_transfer and add_count guard the joining CAS by the same four refusals", floor=3)
    rule_z1(ctx, facts)
    rule_z2_z3(ctx, facts)
    rule_z4(ctx, facts)
    rule_z5(ctx, facts)
    rule_z6(ctx, facts)
