"""C12 -- reads never block and never take locks.  B1 readers are pure / B2 no blocking primitive reachable /
B3 every loop on a reader path has a progress witness."""
from .analysis import flow, back_edges, loop_blocks, reach, Point, dominates
from .anchors import anchors, is_blocking_extern, is_shared_write, is_link_load, callee_str, receiver_field, is_std_atomic, is_reclaim_atomic
from .callgraph import callgraph
from .facts import strip_generics, op_root, op_local, place_fields

PROP = "C12"
LEVEL = "other"
EXPLANATION = (
    "Call-graph effect rule over the resolved program. The read entry points are enumerated from the exported methods of "
    "HashMap/HashSet/HashMapRef/HashSetRef and the iterator types; from each one the call graph (trait calls resolved, closures "
    "attached to their creation site) is closed over flurry's own bodies. B2: no lock/park/yield/sleep/spin/Once primitive and no "
    "function containing one is reachable. B1: no retire, free or shared write is reachable except the reader-count RMWs on "
    "TreeBin.lock_state. B3: in every natural loop of every reachable body, each cycle passes a progress witness (a cursor "
    "assigned from a link load, a CAS whose expected value was freshly loaded, a mutation of iterator-private state, an inner "
    "iterator's next); a cycle that only re-loads and re-tests shared state is a wait and is reported. User code (trait methods on "
    "type parameters, closures passed in) and seize's enter/protect are outside the property.")

FACADES = ("map::HashMap", "set::HashSet", "map_ref::HashMapRef", "set_ref::HashSetRef", "iter::Iter", "iter::Keys", "iter::Values",
           "iter::traverser::NodeIter")
READ_NAMES = ("get", "get_key_value", "contains_key", "contains", "iter", "keys", "values", "next", "len", "is_empty", "eq", "ne",
              "is_disjoint", "is_subset", "is_superset", "index", "fmt", "serialize", "guarded_eq", "into_iter")


def impl_head(b):
    if not b.impl:
        return ""
    h = b.impl["self_head"]
    while h.startswith("&"):
        h = h[1:].replace("mut ", "")
    return h


def readers(facts):
    out = []
    for b in facts.bodies:
        if b.kind == "Closure" or not b.impl:
            continue
        if impl_head(b) in FACADES and b.name in READ_NAMES and (b.exported or b.impl.get("trait")):
            out.append(b)
    return out


def lock_state_only(body, c):
    f = receiver_field(body, c, 0)
    return bool(f) and all(x == ("node::TreeBin", "lock_state") for x in f)


def progress_points(facts, body, loop):
    """points inside `loop` that witness progress of one iteration"""
    fl = flow(body)
    pts = {}
    # loop-carried locals: used in the loop, defined both inside and outside (or params)
    def_in = {}
    for l, ds in body.defs.items():
        for pt, kind, data in ds:
            if pt[0] in loop and kind != "arg":
                def_in.setdefault(l, []).append((pt, kind, data))
    for l, ds in def_in.items():
        outside = [d for d in body.defs[l] if d[0][0] not in loop]
        if not outside:
            continue  # not loop-carried
        for pt, kind, data in ds:
            # P1: new value derives from a link load executed in the loop
            roots, _ = fl.roots(l)
            for r in roots:
                if r[0] == "call":
                    c = body.call_at(r[1])
                    if c and c.b in loop and is_link_load(c) and c.args and op_root(c.args[0]) is not None \
                            and (fl.copies_of(l) & fl.closure_locals(op_root(c.args[0]))):
                        # the link that is followed belongs to the node the cursor stood on (not a re-load of a fixed location)
                        pts[pt] = "P1 cursor %s assigned from link load at %s" % (body.local_name(l) or "_%d" % l, c.span)
    for b in loop:
        blk = body.blocks[b]
        for si, st in enumerate(blk["stmts"]):
            if st["k"] == "assign" and st["dst"]["proj"]:
                root = st["dst"]["local"]
                # P3/P1': write into a field reached through `&mut self` (thread-private iterator state)
                if body.ty(root)["s"].startswith("&mut ") and any(
                        body.ty(k)["s"].startswith("&mut ") and (root == k or fl.derives_from_arg(root, k)) for k in range(1, body.nargs + 1)):
                    pts[Point(b, si)] = "P3 private state %s updated" % ".".join(n for _, n in place_fields(st["dst"]))
        c = body.call_at(b)
        if c is None:
            continue
        tp = body.term_point(b)
        s = callee_str(c)
        # P2: CAS with a freshly loaded expected value
        n = is_std_atomic(c) or is_reclaim_atomic(c)
        if n in ("compare_exchange", "compare_exchange_weak") or s.endswith("raw::Table::cas_bin"):
            exp = c.args[1] if not s.endswith("cas_bin") else c.args[2]
            el = op_root(exp)
            fresh = False
            if el is not None:
                for r in fl.call_roots(el):
                    if r and r.b in loop and (is_std_atomic(r) == "load" or is_link_load(r)):
                        fresh = True
            if fresh:
                pts[tp] = "P2 CAS at %s retries with a freshly loaded expected value" % c.span
        # P4: inner iterator
        if c.callee and c.callee.get("trait") == "std::iter::Iterator" and c.name == "next":
            pts[tp] = "P4 drives inner iterator %s" % s
        # P3: call handing out `&mut` to private state reached through `&mut self`
        for a in c.args:
            r = op_root(a)
            if r is None:
                continue
            if body.ty(r)["s"].startswith("&mut ") and any(fl.derives_from_arg(r, k) and body.ty(k)["s"].startswith("&mut ")
                                                           for k in range(1, body.nargs + 1)):
                pts[tp] = "P3 private state mutated through %s" % s
    return pts


def reader_loop_progress(ctx, facts, cg, loops_seen, rule):
    # B3 over every loop in reader-reachable bodies
    for bid, (rb, seen) in sorted(loops_seen.items()):
        b = facts.by_id[bid]
        for be in back_edges(b, unwind=False):
            tail, head = be
            if b.is_cleanup(head):
                continue
            loop = loop_blocks(b, be, unwind=False)
            pts = progress_points(facts, b, loop)
            # a cycle head -> ... -> tail -> head avoiding all witnesses?
            outside = [x for x in range(len(b.blocks)) if x not in loop]
            r = reach(b, [Point(head, 0)], avoid=set(pts), avoid_blocks=outside)
            tp = b.term_point(tail)
            ok = tp not in r
            what = "loop at %s" % b.term(head)["span"] if True else ""
            if ok:
                ctx.inst(rule, b, "loop@bb%d" % head, b.term(head)["span"], True,
                         "witnesses: %s" % "; ".join(sorted(set(pts.values())))[:300])
            else:
                ctx.inst(rule, b, "loop@bb%d" % head, b.term(head)["span"], False,
                         "a cycle through this loop only re-loads and re-tests shared state (no cursor advance, fresh CAS, private-state "
                         "update or inner iterator); reachable from reader %s via %s" % (strip_generics(rb.id), " -> ".join(x[0] for x in cg.chain(seen, bid))),
                         path=cg.chain(seen, bid))


def rule_reader_loops(ctx, facts, rule):
    """the progress rule on its own (used by C11 as D9): every loop reachable from a read entry point has a progress witness"""
    cg = callgraph(facts)
    loops_seen = {}
    for rb in readers(facts):
        seen = cg.reachable(rb.id)
        for bid in seen:
            loops_seen.setdefault(bid, (rb, seen))
    reader_loop_progress(ctx, facts, cg, loops_seen, rule)


def run(ctx, facts):
    ctx.rule("B1", "read entry points reach no retire/free and no shared write other than RMWs on TreeBin.lock_state", floor=30,
             floor_note="reader entry points on four facades + iterator types")
    ctx.rule("B2", "no blocking primitive (lock, park, yield, sleep, spin_loop, Once, Condvar) is reachable from a read entry point", floor=30)
    ctx.rule("B3", "every cycle of every loop reachable from a reader passes a progress witness (P1 cursor from link load, P2 fresh CAS, "
                   "P3 private iterator state, P4 inner iterator)", floor=5, floor_note="Table::find x2, TreeBin::find, find_tree_node, NodeIter::next, recover_state")
    cg = callgraph(facts)
    an = anchors(facts)
    rs = readers(facts)
    loops_seen = {}
    for rb in rs:
        seen = cg.reachable(rb.id)
        blocking = []
        impure = []
        for bid in seen:
            b = facts.by_id[bid]
            for c in b.calls:
                if b.is_cleanup(c.b):
                    continue
                p = is_blocking_extern(c)
                if p:
                    blocking.append((b, c, p))
                w = is_shared_write(c)
                if w and not lock_state_only(b, c):
                    impure.append((b, c, "shared write %s" % callee_str(c)))
                if an.is_retire(c) is not None or an.is_free(c) is not None:
                    impure.append((b, c, "retire/free %s" % callee_str(c)))
        if blocking:
            b, c, p = blocking[0]
            ctx.inst("B2", rb, "blocking primitive %s" % p, c.span, False,
                     "reachable: %s -> %s at %s" % (" -> ".join(x[0] for x in cg.chain(seen, b.id)), p, c.span),
                     path=cg.chain(seen, b.id))
        else:
            ctx.inst("B2", rb, "no blocking primitive", rb.span, True, "%d bodies reachable" % len(seen))
        if impure:
            b, c, w = impure[0]
            ctx.inst("B1", rb, w, c.span, False, "reachable: %s" % " -> ".join(x[0] for x in cg.chain(seen, b.id)), path=cg.chain(seen, b.id))
        else:
            ctx.inst("B1", rb, "pure", rb.span, True, "%d bodies reachable, no write/retire/free" % len(seen))
        for bid in seen:
            loops_seen.setdefault(bid, (rb, seen))
    reader_loop_progress(ctx, facts, cg, loops_seen, "B3")
    ctx.note("readers: %s" % sorted(strip_generics(b.id) for b in rs))
