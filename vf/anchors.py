"""Anchors and events of DESIGN §3, resolved from the fact file (by shape where they wrap an external API)."""
from .analysis import flow
from .facts import strip_generics, op_root, AnchorError

BLOCKING_EXTERN = (
    "lock_api::Mutex::lock", "lock_api::mutex::Mutex::lock", "lock_api::RwLock::read", "lock_api::RwLock::write",
    "lock_api::ReentrantMutex::lock", "lock_api::Mutex::try_lock_for", "lock_api::Mutex::try_lock_until",
    "sync::Mutex::lock", "sync::mutex::Mutex::lock", "sync::poison::mutex::Mutex::lock", "sync::RwLock::read", "sync::RwLock::write",
    "sync::poison::rwlock::RwLock::read", "sync::poison::rwlock::RwLock::write",
    "sync::Condvar::wait", "sync::poison::condvar::Condvar::wait", "sync::Condvar::wait_while", "sync::Condvar::wait_timeout",
    "sync::Once::call_once", "sync::once::Once::call_once", "sync::poison::once::Once::call_once", "sync::Once::call_once_force",
    "sync::OnceLock::get_or_init", "sync::Barrier::wait", "sync::mpsc::Receiver::recv",
    "thread::park", "thread::park_timeout", "thread::yield_now", "thread::sleep", "thread::JoinHandle::join",
    "hint::spin_loop", "sync::atomic::spin_loop_hint",
    "parking_lot::Condvar::wait", "parking_lot_core::park",
)

ATOMIC_WRITE_NAMES = ("store", "swap", "compare_exchange", "compare_exchange_weak", "fetch_add", "fetch_sub", "fetch_or",
                      "fetch_and", "fetch_xor", "fetch_max", "fetch_min", "fetch_update", "fetch_nand")
ATOMIC_READ_NAMES = ("load",)


def callee_str(c):
    s = strip_generics(c.resolved or c.def_ or "")
    body = getattr(c, "body", None)
    al = getattr(getattr(body, "facts", None), "sid_alias", None) if body is not None else None
    if al and s in al:
        return al[s]      # a renamed / moved private function, under its pinned name
    return s


def is_blocking_extern(c):
    s = callee_str(c)
    for p in BLOCKING_EXTERN:
        if s == p or s.endswith("::" + p):
            return p
    return None


def is_std_atomic(c):
    """call on core::sync::atomic::Atomic*: returns method name"""
    s = callee_str(c)
    if "sync::atomic::Atomic" in s:
        return s.rsplit("::", 1)[-1]
    return None


def is_reclaim_atomic(c):
    """call on reclaim::Atomic<T>: method name"""
    s = callee_str(c)
    if s.startswith("reclaim::Atomic::") or "::reclaim::Atomic::" in s:
        return s.rsplit("::", 1)[-1]
    return None


def is_shared_write(c):
    """(kind, name) when the call is a write to shared storage (DESIGN §3 'shared write')"""
    n = is_reclaim_atomic(c)
    if n in ("store", "swap", "compare_exchange"):
        return ("reclaim", n)
    s = callee_str(c)
    if s.endswith("raw::Table::store_bin") or s.endswith("raw::Table::cas_bin"):
        return ("table", s.rsplit("::", 1)[-1])
    n = is_std_atomic(c)
    if n in ATOMIC_WRITE_NAMES:
        return ("std", n)
    return None


def is_link_load(c):
    """Atomic::load / Table::bin / Table::next_table: following a link of the structure"""
    n = is_reclaim_atomic(c)
    if n == "load":
        return "load"
    s = callee_str(c)
    if s.endswith("raw::Table::bin"):
        return "bin"
    if s.endswith("raw::Table::next_table"):
        return "next_table"
    return None


def receiver_field(body, c, k=0):
    """(adt, field) set designated by the k-th argument reference"""
    l = c.arg_local(k)
    if l is None:
        r = op_root(c.args[k]) if k < len(c.args) else None
        if r is None:
            return set()
        l = r
    return flow(body).field_of_ref(l)


class Anchors:
    def __init__(self, facts):
        self.facts = facts
        self.retire_fns = {}        # body id -> param index of the retired pointer
        self.retire_guard = {}      # body id -> param index of the guard used for the retirement
        self.free_fns = {}          # body id -> param index freed immediately
        self._find_retire()
        self._find_free()

    def _find_retire(self):
        for b in self.facts.bodies:
            fl = flow(b)
            for c in b.calls:
                s = callee_str(c)
                if s.endswith("seize::Guard::defer_retire") or s.endswith("Guard::defer_retire") or s.endswith("seize::Collector::retire") \
                        or s.endswith("Collector::retire"):
                    if len(c.args) < 2:
                        continue
                    l = op_root(c.args[1])
                    g = op_root(c.args[0])
                    gk = None
                    for k in range(1, b.nargs + 1):
                        if g is not None and fl.derives_from_arg(g, k):
                            gk = k
                    for k in range(1, b.nargs + 1):
                        if l is not None and fl.derives_from_arg(l, k):
                            self.retire_fns[b.id] = k
                            self.retire_guard[b.id] = gk
        if not self.retire_fns:
            raise AnchorError("no retire function found (nothing passes a parameter to seize defer_retire)")
        # wrappers: functions that hand (something reached from) their own parameter to a retire function, with their own guard parameter
        changed = True
        while changed:
            changed = False
            for b in self.facts.bodies:
                if b.id in self.retire_fns or b.kind == "Closure" or b.exported:
                    continue
                fl = flow(b)
                for c in b.calls:
                    r = c.resolved
                    if r not in self.retire_fns or b.is_cleanup(c.b):
                        continue
                    pk, gk = self.retire_fns[r], self.retire_guard.get(r)
                    if pk - 1 >= len(c.args) or not gk or gk - 1 >= len(c.args):
                        continue
                    pl, gl = op_root(c.args[pk - 1]), op_root(c.args[gk - 1])
                    if pl is None or gl is None:
                        continue
                    roots, _ = fl.roots(pl)
                    pks = [x[1] for x in roots if x[0] == "arg"]
                    gks = [k for k in range(1, b.nargs + 1) if fl.derives_from_arg(gl, k)]
                    # only pure wrappers: the retired pointer *is* a parameter (not something loaded from it) and the body unlinks nothing itself
                    writes = [x for x in b.calls if is_shared_write(x)]
                    if len(pks) == 1 and all(x[0] == "arg" for x in roots) and gks and not writes:
                        self.retire_fns[b.id] = pks[0]
                        self.retire_guard[b.id] = gks[0]
                        changed = True

    def _find_free(self):
        # direct: Box::from_raw on a parameter-derived pointer; then wrappers, to a fixpoint
        for b in self.facts.bodies:
            fl = flow(b)
            for c in b.calls:
                s = callee_str(c)
                if s.endswith("boxed::Box::from_raw") or s.endswith("Box::from_raw"):
                    l = op_root(c.args[0]) if c.args else None
                    for k in range(1, b.nargs + 1):
                        if l is not None and fl.derives_from_arg(l, k):
                            self.free_fns[b.id] = k
        changed = True
        while changed:
            changed = False
            for b in self.facts.bodies:
                if b.id in self.free_fns or b.kind == "Closure":
                    continue
                fl = flow(b)
                for c in b.calls:
                    r = c.resolved
                    if r in self.free_fns:
                        k0 = self.free_fns[r]
                        if k0 - 1 < len(c.args):
                            l = op_root(c.args[k0 - 1])
                            for k in range(1, b.nargs + 1):
                                if l is not None and fl.derives_from_arg(l, k):
                                    self.free_fns[b.id] = k
                                    changed = True

    def is_retire(self, c):
        """index (0-based) of the retired argument, or None"""
        r = c.resolved
        if r in self.retire_fns:
            return self.retire_fns[r] - 1
        return None

    def retire_guard_arg(self, c):
        r = c.resolved
        g = self.retire_guard.get(r)
        return g - 1 if g else None

    def is_free(self, c):
        r = c.resolved
        if r in self.free_fns:
            return self.free_fns[r] - 1
        s = callee_str(c)
        if s.endswith("boxed::Box::from_raw"):
            return 0
        return None


def anchors(facts):
    a = getattr(facts, "_anchors", None)
    if a is None:
        a = Anchors(facts)
        facts._anchors = a
    return a


# ------------------------------------------------------------------------------------------
# allocation wrappers: crate functions that return, on every path, an object they have just allocated

def alloc_wrappers(facts):
    """{body id}: non-closure crate functions whose returned Shared derives, on every path, from Shared::boxed (or from another such
    function): calling one is allocating a fresh, private object in the caller (e.g. a `new_list_node` helper extracted from put)"""
    w = getattr(facts, "_alloc_wrappers", None)
    if w is not None:
        return w
    from .analysis import flow
    w = set()
    cands = [b for b in facts.bodies if b.kind != "Closure" and b.locals and b.ty(0).get("base") == "reclaim::Shared"]
    changed = True
    while changed:
        changed = False
        for b in cands:
            if b.id in w:
                continue
            roots, _ = flow(b).roots(0)
            calls = [b.call_at(r[1]) for r in roots if r[0] == "call"]
            if roots and len(calls) == len(roots) and all(
                    c is not None and (callee_str(c).endswith("reclaim::Shared::boxed") or c.resolved in w) for c in calls):
                w.add(b.id)
                changed = True
    facts._alloc_wrappers = w
    return w


def is_fresh_alloc(body, c):
    """the call allocates a fresh heap object owned by the caller: Shared::boxed or an allocation wrapper of the crate"""
    if c is None:
        return False
    return callee_str(c).endswith("reclaim::Shared::boxed") or c.resolved in alloc_wrappers(body.facts)


# ------------------------------------------------------------------------------------------
# what a failed CAS hands back, under whatever names a wrapper gives it

def cas_failure_fields(facts):
    """({(adt, field)} holding the rejected new value, {(adt, field)} holding the value found instead) of a failed compare-exchange:
    reclaim::CompareExchangeError.{new, current}, plus the fields of any crate struct that is built from them (`CasBinFailure { found:
    e.current, rejected: e.new }`)"""
    r = getattr(facts, "_cas_fields", None)
    if r is not None:
        return r
    from .facts import place_fields
    new, cur = {("reclaim::CompareExchangeError", "new")}, {("reclaim::CompareExchangeError", "current")}
    changed = True
    while changed:
        changed = False
        for b in facts.bodies:
            fl = flow(b)
            for blk in b.blocks:
                for st in blk["stmts"]:
                    if st["k"] != "assign" or "agg" not in st["rv"] or "adt" not in st["rv"]["agg"]:
                        continue
                    a = st["rv"]["agg"]
                    if a["adt"].startswith(("std::", "core::", "alloc::")):
                        continue
                    for nme, o in zip(a.get("fields", []), st["rv"]["ops"]):
                        l = op_root(o)
                        if l is None:
                            continue
                        fs = set()
                        stack, seen = [l], set()
                        while stack:
                            x = stack.pop()
                            if x in seen:
                                continue
                            seen.add(x)
                            for kind, data, pt in fl.sources(x):
                                if kind == "field":
                                    fs |= set(place_fields(data))
                                elif kind == "copy":
                                    stack.append(data)
                        pl = o.get("move") or o.get("copy")
                        if pl:
                            fs |= set(place_fields(pl))
                        for tgt, src in ((new, fs & new), (cur, fs & cur)):
                            if src and (a["adt"], nme) not in tgt:
                                tgt.add((a["adt"], nme))
                                changed = True
    facts._cas_fields = (new, cur)
    return new, cur
