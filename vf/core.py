"""Check context: rule instances, floors, violations, known findings, evidence files."""
import json
import os
import re
import time

from .facts import strip_generics, AnchorError

VERIF = os.path.dirname(os.path.dirname(os.path.abspath(__file__)))
def evidence_dir():
    return os.environ.get("VF_EVIDENCE_DIR") or os.path.join(VERIF, "evidence")


def replay_dir():
    return os.path.join(evidence_dir(), "replay")
KNOWN = os.path.join(VERIF, "known_findings.txt")


class Inconclusive(Exception):
    pass


class Instance:
    __slots__ = ("rule", "fn", "what", "loc", "ok", "detail", "path", "config", "nontrivial")

    def __init__(self, rule, fn, what, loc, ok, detail="", path=None, config="", nontrivial=True):
        self.rule = rule
        self.fn = fn
        self.what = what
        self.loc = loc
        self.ok = ok
        self.detail = detail
        self.path = path
        self.config = config
        self.nontrivial = nontrivial

    def key_base(self):
        return "%s|%s|%s" % (self.rule, strip_generics(self.fn), self.what)

    def to_json(self):
        d = dict(rule=self.rule, function=self.fn, what=self.what, loc=self.loc,
                 verdict="ok" if self.ok else "VIOLATION", detail=self.detail)
        if self.path:
            d["path"] = self.path
        if self.config:
            d["config"] = self.config
        return d


class Ctx:
    def __init__(self, prop, tier, seed=0):
        self.prop = prop
        self.tier = tier
        self.seed = seed
        self.t0 = time.time()
        self.instances = []
        self.floors = {}      # rule -> (expected_min, description)
        self.rule_text = {}   # rule -> text
        self.notes = []
        self.config = ""
        self.facts = None
        self.stats = dict(functions_analysed=0, call_sites=0, configs=[])
        self.extra = {}
        self.inconclusive = []
        self.assumptions = []
        self.trusted = []

    # ---- recording --------------------------------------------------------------------
    def rule(self, rid, text, floor=None, floor_note=""):
        self.rule_text[rid] = text
        if floor is not None:
            self.floors[(rid, self.config)] = (floor, floor_note)

    def set_floor(self, rid, floor, floor_note=""):
        self.floors[(rid, self.config)] = (floor, floor_note)

    def inst(self, rule, fn, what, loc, ok, detail="", path=None, nontrivial=True):
        i = Instance(rule, getattr(fn, "id", fn), what, loc, bool(ok), detail, path, self.config, nontrivial)
        self.instances.append(i)
        return i

    def note(self, s):
        self.notes.append(s)

    def fail_closed(self, why):
        self.inconclusive.append(why)

    def count(self, rule, config=None):
        return len([i for i in self.instances if i.rule == rule and (config is None or i.config == config)])

    # ---- finishing --------------------------------------------------------------------
    def violations(self):
        """[(key, instance)] with ordinals among equal key bases; duplicates across configs merged"""
        out = []
        seen = {}
        per_cfg = {}
        for i in self.instances:
            if i.ok:
                continue
            kb = i.key_base()
            n = per_cfg.get((kb, i.config), 0)
            per_cfg[(kb, i.config)] = n + 1
            key = "%s|%d" % (kb, n)
            if key in seen:
                continue
            seen[key] = i
            out.append((key, i))
        return out

    def check_floors(self):
        for (rid, cfg), (n, note) in self.floors.items():
            got = len([i for i in self.instances if i.rule == rid and i.config == cfg and i.nontrivial])
            if got < n:
                self.fail_closed("rule %s matched %d instance(s) in config '%s', below the floor %d confirmed by reading (%s)"
                                 % (rid, got, cfg, n, note))

    def finish(self, level, explanation, checker_cmd, extra_cov=None):
        """writes evidence, prints VIOLATION / KNOWN-FINDING lines, returns exit code"""
        self.check_floors()
        known, fixed = load_known()
        viol = self.violations()
        os.makedirs(replay_dir(), exist_ok=True)
        new_v = []
        known_v = []
        for key, i in viol:
            kk = (self.prop, key)
            if kk in known:
                known_v.append((key, i, known[kk]))
            else:
                new_v.append((key, i))
        code = 0
        lines = []
        if self.inconclusive and not new_v:
            code = 3
            for w in self.inconclusive:
                lines.append("INCONCLUSIVE property=%s %s" % (self.prop, w))
        for key, i, desc in known_v:
            lines.append("KNOWN-FINDING: property=%s %s [%s]" % (self.prop, desc, key))
        for key, i in new_v:
            rp = os.path.join(replay_dir(), "%s-%s.json" % (self.prop, re.sub(r"[^A-Za-z0-9_.-]+", "_", key)[:150]))
            with open(rp, "w") as f:
                json.dump(dict(property=self.prop, key=key, rule_text=self.rule_text.get(i.rule, ""), **i.to_json()), f, indent=1)
            lines.append("VIOLATION property=%s replay=%s" % (self.prop, rp))
            lines.append("  %s %s: %s at %s -- %s" % (i.rule, strip_generics(i.fn), i.what, i.loc, i.detail))
            code = 1
        # evidence
        nontriv = {(i.rule, strip_generics(i.fn), i.what, i.loc) for i in self.instances if i.nontrivial}
        samples = []
        per_rule_seen = {}
        for i in self.instances:
            n = per_rule_seen.get(i.rule, 0)
            if n < 3 or not i.ok:
                samples.append(i.to_json())
            per_rule_seen[i.rule] = n + 1
        per_rule = {}
        for i in self.instances:
            d = per_rule.setdefault(i.rule, dict(instances=0, violations=0))
            d["instances"] += 1
            if not i.ok:
                d["violations"] += 1
        for (rid, cfg), (n, note) in self.floors.items():
            d = per_rule.setdefault(rid, dict(instances=0, violations=0))
            d["floor"] = n if "floor" not in d else "%s/%s" % (d["floor"], n)
        cov = dict(
            evaluations=len(self.instances),
            distinct_nontrivial=len(nontriv),
            rule="; ".join("%s: %s" % (k, v) for k, v in sorted(self.rule_text.items())),
            samples=samples[:60],
            explanation=explanation,
            checker_cmd=checker_cmd,
            trusted_base=self.trusted,
            functions_analysed=self.stats["functions_analysed"],
            call_sites=self.stats["call_sites"],
            configs=self.stats["configs"],
            per_rule=per_rule,
            notes=self.notes,
            inconclusive=self.inconclusive,
            known_findings_matched=[k for k, _, _ in known_v],
            fixed_entries=[f for f in fixed if f[0] == self.prop],
            exhaustive=True,
        )
        if level == "proof":
            obl = len([i for i in self.instances])
            cov["obligations"] = obl
            cov["discharged"] = len([i for i in self.instances if i.ok])
        if extra_cov:
            cov.update(extra_cov)
        cov.update(self.extra)
        ev = dict(
            property_id=self.prop, tier=self.tier, seed=self.seed, level=level, coverage=cov,
            assumptions=self.assumptions, wall_s=round(time.time() - self.t0, 2),
            violations=len(new_v),
        )
        os.makedirs(evidence_dir(), exist_ok=True)
        with open(os.path.join(evidence_dir(), "%s.json" % self.prop), "w") as f:
            json.dump(ev, f, indent=1)
        for l in lines:
            print(l)
        summary = "%s tier=%s: %d rule instance(s) over %d function(s) / %d call site(s) in %s; %d violation(s), %d known, %d inconclusive; %.1fs" % (
            self.prop, self.tier, len(self.instances), self.stats["functions_analysed"], self.stats["call_sites"],
            self.stats["configs"], len(new_v), len(known_v), len(self.inconclusive), time.time() - self.t0)
        print(summary)
        for rid in sorted(per_rule):
            d = per_rule[rid]
            print("  %-4s instances=%-4d violations=%-3d floor=%s" % (rid, d["instances"], d["violations"], d.get("floor", "-")))
        return code


def load_known():
    """known_findings.txt lines:
         known: property=C03 key=<rule|function|what|n> :: <what fails>
         fixed: property=C03 <commit> <what failed>
    """
    known = {}
    fixed = []
    if os.path.exists(KNOWN):
        for line in open(KNOWN):
            line = line.strip()
            if not line or line.startswith("#"):
                continue
            m = re.match(r"known:\s+property=(\S+)\s+key=(.+?)\s+::\s+(.*)$", line)
            if m:
                known[(m.group(1), m.group(2))] = m.group(3)
                continue
            m = re.match(r"fixed:\s+property=(\S+)\s+(\S+)\s+(.*)$", line)
            if m:
                fixed.append((m.group(1), m.group(2), m.group(3)))
    return known, fixed
