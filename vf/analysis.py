"""Shared analyses over one MIR body: reachability with removal (must-pass-through), dominators,
lock regions (must-held), origins / view chains, branch-condition normalisation."""
from collections import defaultdict, deque

from .facts import Point, op_local, op_place, op_root, op_int, place_fields, strip_generics, Call

# ------------------------------------------------------------------------------------------
# function classes (anchors of DESIGN §3).  External APIs are matched by resolved def path.

VIEW_FNS = (
    "reclaim::Shared::deref", "reclaim::Shared::as_ref", "reclaim::Shared::clone", "reclaim::Shared::as_ptr",
    "node::BinEntry::as_node", "node::BinEntry::as_tree_node", "node::BinEntry::as_tree_bin",
    "node::TreeNode::get_tree_node",
    "option::Option::unwrap", "option::Option::expect", "option::Option::as_ref", "option::Option::unwrap_unchecked",
    "option::Option::as_deref", "option::Option::copied", "option::Option::cloned", "option::Option::filter", "option::Option::inspect",
    "ops::Deref::deref", "borrow::Borrow::borrow", "convert::AsRef::as_ref", "clone::Clone::clone",
    "reclaim::GuardRef::deref", "ops::Try::branch", "try_trait::Try::branch", "sync::atomic::Atomic::into_inner", "sync::atomic::AtomicPtr::into_inner", "seize::Link::cast",
)


def callers_of(facts, bid):
    m = getattr(facts, "_callers", None)
    if m is None:
        m = {}
        for b in facts.bodies:
            for c in b.calls:
                if c.resolved:
                    m.setdefault(c.resolved, []).append((b, c))
        facts._callers = m
    return m.get(bid, [])


def is_view(call):
    c = call.callee
    if not c:
        return False
    d = strip_generics(c["def"])
    r = strip_generics(c.get("resolved") or "")
    for v in VIEW_FNS:
        if d.endswith(v) or r.endswith(v):
            # Clone::clone is a view only for Shared / references (Copy pointers)
            if v == "clone::Clone::clone":
                st = c.get("self_ty", {}).get("base", "")
                return st == "reclaim::Shared"
            if v in ("ops::Deref::deref", "borrow::Borrow::borrow", "convert::AsRef::as_ref"):
                return True
            return True
    if "Linked" in d and d.endswith("::deref"):
        return True
    return False


def is_ptr_cmp(call):
    """Shared == / != Shared (pointer identity)"""
    c = call.callee
    if not c or c.get("trait") != "std::cmp::PartialEq":
        return None
    if c.get("self_ty", {}).get("base") != "reclaim::Shared":
        return None
    if c["name"] in ("eq", "ne"):
        return c["name"]
    return None


# ------------------------------------------------------------------------------------------
# reachability over points


def succ_points(body, pt, unwind=False, avoid_edges=None):
    b, i = pt
    n = body.nstmts(b)
    if i < n:
        return [Point(b, i + 1)]
    out = []
    for s, lab in body.term_succ(b, unwind):
        if avoid_edges and (b, s) in avoid_edges:
            continue
        out.append(Point(s, 0))
    return out


def reach(body, starts, avoid=(), unwind=False, avoid_edges=None, avoid_blocks=()):
    """Points reachable from `starts` (each start means: about to execute that point).
    Execution never *passes* a point in `avoid` (the avoided point is itself not reached)."""
    avoid = set(avoid)
    avoid_blocks = set(avoid_blocks)
    seen = set()
    dq = deque()
    for s in starts:
        if s not in avoid and s[0] not in avoid_blocks:
            seen.add(s)
            dq.append(s)
    while dq:
        pt = dq.popleft()
        for nx in succ_points(body, pt, unwind, avoid_edges):
            if nx in seen or nx in avoid or nx[0] in avoid_blocks:
                continue
            seen.add(nx)
            dq.append(nx)
    return seen


def after(body, pt, unwind=False, label=None):
    """start points just after executing `pt` (for a terminator: its successors; label selects edge)"""
    b, i = pt
    if i < body.nstmts(b):
        return [Point(b, i + 1)]
    out = []
    for s, lab in body.term_succ(b, unwind):
        if label is None or lab == label or (label == "normal" and lab != "unwind"):
            out.append(Point(s, 0))
    return out


def entry(body):
    return Point(0, 0)


def can_reach(body, starts, goal, avoid=(), unwind=False, avoid_edges=None):
    return goal in reach(body, starts, avoid, unwind, avoid_edges)


def dominated_by_points(body, goal, through, unwind=False):
    """every path entry -> goal passes (executes) one of `through`"""
    return goal not in reach(body, [entry(body)], avoid=through, unwind=unwind)


def dominated_by_edge(body, goal, edges, unwind=False):
    """every path entry -> goal takes one of the CFG edges (from_block, to_block)"""
    return goal not in reach(body, [entry(body)], unwind=unwind, avoid_edges=set(edges))


def live_blocks(body, unwind=True):
    return {p[0] for p in reach(body, [entry(body)], unwind=unwind)}


# ------------------------------------------------------------------------------------------
# return points / exits


def return_points(body):
    return [body.term_point(b) for b in range(len(body.blocks)) if body.term(b)["k"] == "return"]


def resume_points(body):
    return [body.term_point(b) for b in range(len(body.blocks)) if body.term(b)["k"] == "resume"]


# ------------------------------------------------------------------------------------------
# value flow: copies, refs, views


class Flow:
    """flow-insensitive def-use helper for one body"""

    def __init__(self, body):
        self.body = body
        self._org = {}
        self._fwd = None

    # -- backward: where does a local come from -------------------------------------------
    def sources(self, local):
        """one step backwards: list of (kind, payload, point)
        kinds: copy(local) ref(place) field(place) view(call,local) call(call) agg(stmt) const(op) arg(k) other"""
        out = []
        for pt, kind, data in self.body.defs.get(local, []):
            if kind == "arg":
                out.append(("arg", data, pt))
            elif kind == "assign":
                rv = data["rv"]
                if "use" in rv:
                    op = rv["use"]
                    p = op_place(op)
                    if p is None:
                        out.append(("const", op, pt))
                    elif not p["proj"]:
                        out.append(("copy", p["local"], pt))
                    elif p["proj"] == ["deref"] and self._ref_of_local(p["local"]) is not None:
                        # `*r` with `r = &x` (single definition): a read of x (a by-reference capture of an inlined closure)
                        out.append(("copy", self._ref_of_local(p["local"]), pt))
                    else:
                        out.append(("field", p, pt))
                elif "ref" in rv or "rawptr" in rv:
                    out.append(("ref", rv.get("ref") or rv.get("rawptr"), pt))
                elif "cast" in rv:
                    l = op_root(rv["cast"])
                    if l is not None:
                        out.append(("copy", l, pt))
                    else:
                        out.append(("const", rv["cast"], pt))
                elif "agg" in rv:
                    out.append(("agg", data, pt))
                elif "discr" in rv:
                    out.append(("discr", rv["discr"], pt))
                else:
                    out.append(("other", data, pt))
            elif kind == "call":
                c = data
                if is_view(c) and c.args:
                    l = op_root(c.args[0])
                    if l is not None:
                        out.append(("view", (c, l), pt))
                        continue
                out.append(("call", c, pt))
            elif kind in ("partial", "partial_call"):
                out.append(("partial", data, pt))
        return out

    def _ref_of_local(self, r):
        """x when r's only definition is `&x` / `&mut x` of a whole local (through single-definition copies and reborrows of r)"""
        seen = set()
        while r is not None and r not in seen and len(seen) < 6:
            seen.add(r)
            ds = [d for d in self.body.defs.get(r, []) if d[1] in ("assign", "call", "arg")]
            if len(ds) != 1 or ds[0][1] != "assign":
                return None
            rv = ds[0][2]["rv"]
            if "ref" in rv:
                if not rv["ref"]["proj"]:
                    return rv["ref"]["local"]
                if rv["ref"]["proj"] == ["deref"]:
                    r = rv["ref"]["local"]
                    continue
                return None
            if "use" in rv:
                pl = op_place(rv["use"])
                if pl is not None and not pl["proj"]:
                    r = pl["local"]
                    continue
            return None
        return None

    def roots(self, local, through_agg=True):
        """transitive closure of sources through copies, refs, field projections and view calls.
        returns set of terminal items: ('arg',k) ('call',Call) ('const',repr) ('agg',point) ('other',point)
        plus, for every step that went through a field: recorded in .paths"""
        seen = set()
        out = set()
        stack = [local]
        while stack:
            l = stack.pop()
            if l in seen:
                continue
            seen.add(l)
            srcs = self.sources(l)
            if not srcs:
                out.add(("undef", l))
            for kind, data, pt in srcs:
                if kind == "copy":
                    stack.append(data)
                elif kind in ("ref", "field", "discr"):
                    stack.append(data["local"])
                elif kind == "view":
                    stack.append(data[1])
                elif kind == "arg":
                    out.add(("arg", data))
                elif kind == "call":
                    out.add(("call", data.b))
                elif kind == "const":
                    out.add(("const", data.get("const")))
                elif kind == "agg":
                    out.add(("agg", pt))
                    if through_agg:
                        for o in data["rv"]["ops"]:
                            r = op_root(o)
                            if r is not None:
                                stack.append(r)
                elif kind == "partial":
                    out.add(("partial", pt))
                else:
                    out.add(("other", pt))
        return out, seen

    def reaching_defs(self, local, pt):
        """whole definitions of `local` that may reach point pt (no other whole definition of it in between)"""
        ds = [d for d in self.body.defs.get(local, []) if d[1] in ("assign", "call", "arg")]
        if len(ds) <= 1:
            return ds
        pts = {d[0] for d in ds}
        out = []
        for d in ds:
            start = [entry(self.body)] if d[1] == "arg" else after(self.body, d[0], label="normal")
            r = reach(self.body, start, avoid=pts - {d[0]} if d[1] != "arg" else pts)
            if pt in r or pt in start:
                out.append(d)
        return out

    def roots_at(self, local, pt, _seen=None):
        """like roots(), but flow-sensitive along plain copies: at each step only the definitions that reach the use are followed"""
        seen = _seen if _seen is not None else set()
        if (local, pt) in seen or len(seen) > 200:
            return set()
        seen.add((local, pt))
        out = set()
        for pt0, kind, data in self.reaching_defs(local, pt):
            if kind == "arg":
                out.add(("arg", data))
            elif kind == "call":
                if is_view(data) and data.args and op_root(data.args[0]) is not None:
                    out |= self.roots_at(op_root(data.args[0]), pt0, seen)
                else:
                    out.add(("call", data.b))
            else:
                rv = data["rv"]
                nxt = []
                if "use" in rv or "cast" in rv:
                    r = op_root(rv.get("use") or rv.get("cast"))
                    if r is not None:
                        nxt.append(r)
                    else:
                        out.add(("const", (rv.get("use") or rv.get("cast")).get("const")))
                elif "ref" in rv or "rawptr" in rv:
                    nxt.append((rv.get("ref") or rv.get("rawptr"))["local"])
                elif "agg" in rv:
                    out.add(("agg", pt0))
                    nxt += [op_root(o) for o in rv["ops"] if op_root(o) is not None]
                elif "discr" in rv:
                    nxt.append(rv["discr"]["local"])
                else:
                    out.add(("other", pt0))
                for n in nxt:
                    out |= self.roots_at(n, pt0, seen)
        return out

    def closure_locals(self, local):
        """all locals from which `local` may derive by copy/ref/view/field (including itself)"""
        return self.roots(local)[1]

    def call_roots(self, local):
        """Calls (as Call objects) that may produce the value `local` derives from"""
        r, _ = self.roots(local)
        return [self.body.call_at(x[1]) for x in r if x[0] == "call"]

    def derives_from_arg(self, local, k):
        r, _ = self.roots(local)
        return ("arg", k) in r

    # -- access paths --------------------------------------------------------------------
    def ref_fields(self, local, depth=6):
        """for a reference-typed local: set of (base_local, ((adt,field),...)) it may point into.
        `&(*n).next` -> (n, (('node::Node','next'),)).  Follows copies and reborrows of refs."""
        out = set()
        seen = set()
        stack = [(local, ())]
        while stack:
            l, suffix = stack.pop()
            if (l, suffix) in seen or len(seen) > 400:
                continue
            seen.add((l, suffix))
            srcs = self.sources(l)
            progressed = False
            for kind, data, pt in srcs:
                if kind == "copy":
                    stack.append((data, suffix))
                    progressed = True
                elif kind in ("ref", "field"):
                    f = tuple(place_fields(data))
                    if f:
                        out.add((data["local"], f + suffix))
                        stack.append((data["local"], f + suffix))
                    else:
                        stack.append((data["local"], suffix))
                    progressed = True
                elif kind == "view":
                    stack.append((data[1], suffix))
                    progressed = True
            if not progressed and suffix:
                out.add((l, suffix))
        return out

    def field_of_ref(self, local, _seen=None):
        """last field names this reference may designate: set of (adt, field).  A reference that is (a copy of) a parameter of a
        crate-private function designates what its callers pass (`fn unlock_root(lock_state: &AtomicI64)` called as
        `unlock_root(&self.lock_state)`)"""
        out = {p[1][-1] for p in self.ref_fields(local) if p[1]}
        if out:
            return out
        b = self.body
        facts = getattr(b, "facts", None)
        if facts is None or b.kind == "Closure" or b.exported:
            return out
        seen = _seen if _seen is not None else set()
        roots, _ = self.roots(local)
        for r in roots:
            if r[0] != "arg" or (b.id, r[1]) in seen or len(seen) > 12:
                continue
            seen.add((b.id, r[1]))
            if not b.ty(r[1]).get("s", "").startswith("&"):
                continue
            for cb, c in callers_of(facts, b.id):
                if r[1] - 1 < len(c.args):
                    al = op_root(c.args[r[1] - 1])
                    if al is not None:
                        out |= flow(cb).field_of_ref(al, seen)
        return out

    # -- forward: where does a local flow ------------------------------------------------
    def _build_fwd(self):
        fwd = defaultdict(set)
        for l in range(len(self.body.locals)):
            for kind, data, pt in self.sources(l):
                if kind == "copy":
                    fwd[data].add(l)
                elif kind in ("ref", "field"):
                    fwd[data["local"]].add(l)
                elif kind == "view":
                    fwd[data[1]].add(l)
                elif kind == "agg":
                    for o in data["rv"]["ops"]:
                        r = op_root(o)
                        if r is not None:
                            fwd[r].add(l)
        # stores through a reference to a local: `*link = x` where link = &mut low_bin | &mut high_bin
        for blk in self.body.blocks:
            for st in blk["stmts"]:
                if st["k"] == "assign" and st["dst"]["proj"] == ["deref"]:
                    rv = st["rv"]
                    src = op_root(rv["use"]) if "use" in rv else None
                    if src is None:
                        continue
                    seen, stack = set(), [st["dst"]["local"]]
                    while stack:
                        r = stack.pop()
                        if r in seen:
                            continue
                        seen.add(r)
                        for kind, data, pt in self.sources(r):
                            if kind == "ref" and not data["proj"]:
                                fwd[src].add(data["local"])
                            elif kind == "copy":
                                stack.append(data)
        self._fwd = fwd

    def flows_to(self, local, through_agg=True):
        """locals that may hold (a copy/view/wrapping of) the value of `local`"""
        if self._fwd is None:
            self._build_fwd()
        seen = {local}
        stack = [local]
        while stack:
            l = stack.pop()
            for n in self._fwd.get(l, ()):
                if n not in seen:
                    seen.add(n)
                    stack.append(n)
        return seen

    def copies_of(self, local):
        """locals related to `local` by plain copies/moves only (both directions)"""
        seen = {local}
        stack = [local]
        if self._fwd is None:
            self._build_fwd()
        while stack:
            l = stack.pop()
            for kind, data, pt in self.sources(l):
                if kind == "copy" and data not in seen:
                    seen.add(data)
                    stack.append(data)
            for n in self._fwd.get(l, ()):
                if n in seen:
                    continue
                for kind, data, pt in self.sources(n):
                    if kind == "copy" and data == l:
                        seen.add(n)
                        stack.append(n)
        return seen


def flow(body):
    f = getattr(body, "_flow", None)
    if f is None:
        f = Flow(body)
        body._flow = f
    return f


def value_chains(body, local, limit=40):
    """def-use chains origin -> ... -> local as lists of def points (origin first).  Origins are non-view calls or arguments.
    Aggregates are followed field-sensitively: a value read back out of `(x as Some).0.e` is traced into the operand that was
    stored as field `e`, not into its sibling fields (a struct returned by a helper may carry a tested and an untested pointer)."""
    fl = flow(body)
    chains = []

    def proj_fields(p):
        """field names of a place projection, outermost access first; None if the access goes through a pointer"""
        out = []
        for e in p["proj"]:
            if e == "deref":
                return None
            if isinstance(e, dict) and "field" in e:
                out.append(str(e.get("name", e["field"])))
        return out

    def rec(l, suffix, visiting, need):
        if len(chains) >= limit:
            return
        srcs = fl.sources(l)
        if not srcs:
            chains.append(suffix)
            return
        for kind, data, pt in srcs:
            nneed = need
            if kind == "copy":
                nxt = [data]
            elif kind in ("ref", "field", "discr"):
                nxt = [data["local"]]
                pf = proj_fields(data) if kind != "discr" else []
                nneed = (pf + need) if (pf is not None and need is not None) else None
            elif kind == "view":
                nxt = [data[1]]
                nneed = None
            elif kind == "agg":
                ops = data["rv"]["ops"]
                names = [str(x) for x in data["rv"]["agg"].get("fields", [])] or [str(i) for i in range(len(ops))]
                nxt = None
                if need:
                    if need[0] in names and names.index(need[0]) < len(ops):
                        o = ops[names.index(need[0])]
                        nxt = [op_root(o)] if op_root(o) is not None else []
                        nneed = need[1:]
                if nxt is None:
                    nxt = [op_root(o) for o in ops if op_root(o) is not None]
                    nneed = None
            elif kind == "arg":
                chains.append([("arg", data)] + suffix)
                continue
            elif kind == "call":
                chains.append([pt] + suffix)
                continue
            else:
                continue
            for n in nxt:
                if (n, pt) in visiting:
                    continue
                rec(n, [pt] + suffix, visiting | {(n, pt)}, nneed)

    rec(local, [], frozenset(), [])
    return chains



# ------------------------------------------------------------------------------------------
# lock regions


def is_mutex_guard_ty(t):
    return t["head"].endswith("lock_api::MutexGuard") or t["head"].endswith("MutexGuard")


def _direct_lock(body, c):
    return bool(c.callee and c.is_("lock_api::Mutex::lock", "Mutex::lock") and c.dst_local() is not None
                and is_mutex_guard_ty(body.ty(c.dst_local())))


def lock_wrappers(facts):
    """{body id: (k, fields)}: crate functions that return, on every path, the MutexGuard obtained by locking a mutex reached from their
    k-th argument (directly or through another wrapper).  A call of such a function acquires that lock in the caller: the wrapper is
    summarised as an acquire and has no lock region of its own (Min et al.: a wrapper 'acquires' when all its paths return with the lock held)."""
    w = getattr(facts, "_lock_wrappers", None)
    if w is not None:
        return w
    w = {}
    cands = [b for b in facts.bodies if b.locals and is_mutex_guard_ty(b.ty(0))]
    changed = True
    while changed:
        changed = False
        for b in cands:
            if b.id in w:
                continue
            fl = flow(b)
            roots, _ = fl.roots(0)
            ks, fields, ok = set(), set(), bool(roots)
            for r in roots:
                if r[0] != "call":
                    ok = False
                    break
                c = b.call_at(r[1])
                if _direct_lock(b, c):
                    rl, fs = c.arg_local(0), None
                elif c.resolved in w:
                    kk, fs = w[c.resolved]
                    rl = c.arg_local(kk)
                else:
                    ok = False
                    break
                if rl is None:
                    ok = False
                    break
                if fs is None:
                    fs = fl.field_of_ref(rl)
                rr, _ = fl.roots(rl)
                if not rr or any(x[0] != "arg" for x in rr):
                    ok = False
                    break
                ks |= {x[1] for x in rr}
                fields |= set(fs)
            if ok and len(ks) == 1:
                k = next(iter(ks))
                w[b.id] = (k - 1 if k >= 1 else k, frozenset(fields))
                changed = True
    facts._lock_wrappers = w
    return w


def lock_calls(body):
    """bin-lock acquires: calls to lock_api::Mutex::lock (resolved) or to a crate function summarised as a lock wrapper, with receiver
    field info.  Inside a wrapper the returned guard's acquire is not a region of that body."""
    out = []
    w = lock_wrappers(body.facts)
    if body.id in w:
        return out
    for c in body.calls:
        if _direct_lock(body, c):
            out.append(c)
        elif c.resolved in w and c.dst_local() is not None and is_mutex_guard_ty(body.ty(c.dst_local())):
            out.append(c)
    return out


def lock_receiver(body, c):
    """(local holding the reference the lock is reached from, {(adt, field)} of the mutex) for an acquire returned by lock_calls"""
    w = lock_wrappers(body.facts)
    if c.resolved in w and not _direct_lock(body, c):
        k, fs = w[c.resolved]
        return c.arg_local(k), set(fs)
    l = c.arg_local(0)
    return l, (flow(body).field_of_ref(l) if l is not None else set())


class Region:
    """must-held region of one MutexGuard local"""

    def __init__(self, body, call):
        self.body = body
        self.call = call
        self.guard = call.dst_local()
        self.points = self._compute()

    def _kills(self, pt, g=None):
        body = self.body
        g = self.guard if g is None else g
        st = body.stmt(pt)
        if st is not None:
            if st["k"] == "storage_dead" and st["local"] == g:
                return True
            if st["k"] == "assign":
                rv = st["rv"]
                if "use" in rv and "move" in rv["use"] and op_local(rv["use"]) == g:
                    return True
            return False
        t = body.term(pt[0])
        if t["k"] == "drop" and t["place"]["local"] == g and not t["place"]["proj"]:
            return True
        if t["k"] == "call":
            for a in t["args"]:
                if "move" in a and op_local(a) == g:
                    return True
        return False

    def _handover(self, pt, g):
        """`x = move g` with x a whole local: the guard changes hands (a helper that received the guard by value, once inlined); the
        lock stays held under the new owner"""
        st = self.body.stmt(pt)
        if st is not None and st["k"] == "assign" and not st["dst"]["proj"] and "use" in st["rv"] and "move" in st["rv"]["use"] \
                and op_local(st["rv"]["use"]) == g and st["dst"]["local"] != g:
            return st["dst"]["local"]
        return None

    def _compute(self):
        body = self.body
        # forward must analysis == points reachable from the acquire's return edge without passing a kill,
        # minus points also reachable from entry without passing the acquire (must, not may); the guard may be handed from local to local
        may, held_kills = set(), set()
        self.owners = []
        work = [(after(body, self.call.point, unwind=False, label="ret"), self.guard)]
        while work and len(self.owners) < 8:
            start, g = work.pop()
            if g in self.owners:
                continue
            self.owners.append(g)
            kills = {pt for pt in body.points() if self._kills(pt, g)}
            seg = reach(body, start, avoid=kills, unwind=True)
            may |= seg
            for k in kills:
                b, i = k
                prevs = [Point(b, i - 1)] if i > 0 else [body.term_point(p) for p in body.preds(True).get(b, [])]
                held = k in start or (i == 0 and Point(b, 0) in start) or any(p in seg for p in prevs)
                if not held:
                    continue
                nxt = self._handover(k, g)
                if nxt is not None:
                    may.add(k)
                    work.append((after(body, k, unwind=True), nxt))
                else:
                    held_kills.add(k)
        # must: not reachable from entry while avoiding the acquire point and avoiding re-entry
        notheld = reach(body, [entry(body)], avoid={self.call.point}, unwind=True)
        # points after a kill are not held: reach from after-kill avoiding the acquire
        post = set()
        for k in held_kills:
            post |= reach(body, after(body, k, unwind=True), avoid={self.call.point}, unwind=True)
        self.kills = held_kills
        must = {p for p in may if p not in notheld and p not in post}
        self.may = may
        return must

    def holds_at(self, pt):
        return pt in self.points

    def may_hold_at(self, pt):
        return pt in self.may

    def receiver_fields(self):
        """(adt, field) of the mutex this region locks, e.g. ('node::Node','lock')"""
        return lock_receiver(self.body, self.call)[1]

    def recv_local(self):
        return lock_receiver(self.body, self.call)[0]


def regions(body):
    r = getattr(body, "_regions", None)
    if r is None:
        r = [Region(body, c) for c in lock_calls(body)]
        body._regions = r
    return r


def held_regions_at(body, pt):
    return [r for r in regions(body) if r.holds_at(pt)]


# ------------------------------------------------------------------------------------------
# branch conditions


def bool_switch(body, b):
    """for `switch x 0->F otherwise T` on a bool: (operand_local, false_block, true_block) else None"""
    t = body.term(b)
    if t["k"] != "switch":
        return None
    l = op_local(t["on"])
    if l is None:
        return None
    if len(t["targets"]) == 1 and t["targets"][0][0] == "0":
        return (l, t["targets"][0][1], t["otherwise"])
    return None


def discr_switch(body, b):
    """`match opt { None => .., Some(..) => .. }` / `let Some(x) = opt else {..}` / `if let Ok(..) = res`: a switch on the discriminant of an
    Option or Result local is the same test as is_none() / is_ok(): kind 'is_none' (true == None) resp. 'is_ok' (true == Ok)"""
    t = body.term(b)
    if t["k"] != "switch":
        return None
    l = op_local(t["on"])
    if l is None:
        return None
    defs = [d for d in body.defs.get(l, []) if d[1] == "assign"]
    if len(defs) != 1 or "discr" not in defs[0][2]["rv"]:
        return None
    pl = defs[0][2]["rv"]["discr"]
    if pl["proj"]:
        return None
    head = body.ty(pl["local"])["head"]
    if head.endswith("option::Option"):
        kind, zero_is_true = "is_none", True
    elif head.endswith("result::Result"):
        kind, zero_is_true = "is_ok", True
    else:
        return None
    tg = {int(v): blk for v, blk in t["targets"]}
    other = t["otherwise"]
    # an `otherwise` that is just `unreachable` does not count as an edge
    def live(blk):
        return blk is not None and body.term(blk)["k"] != "unreachable"
    zero = tg.get(0, other if (0 not in tg and live(other)) else None)
    one = tg.get(1, other if (1 not in tg and live(other)) else None)
    if zero is None or one is None:
        return None
    return dict(kind=kind, arg=pl["local"], true=zero if zero_is_true else one, false=one if zero_is_true else zero, local=l)


def cond_of(body, b):
    """Normalise the condition tested by the switch ending block b.
    returns dict(kind=..., true=block, false=block, ...) or None.
    kinds: 'is_null' (arg local), 'ptr_eq' (a,b locals; true == pointers equal), 'bool' (local),
           'call' (Call; true == call returned true)"""
    ds = discr_switch(body, b)
    if ds is not None:
        return ds
    bs = bool_switch(body, b)
    if bs is None:
        return None
    l, fb, tb = bs
    neg = False
    fl = flow(body)
    seen = set()
    at = body.term_point(b)
    while True:
        if l in seen:
            return dict(kind="bool", local=l, true=tb if not neg else fb, false=fb if not neg else tb)
        seen.add(l)
        srcs = fl.sources(l)
        if len(srcs) > 1:
            # several definitions: only those that reach this use count (after jump threading the constant ones no longer do)
            live = {d[0] for d in fl.reaching_defs(l, at)}
            srcs = [x for x in srcs if x[2] in live]
        if len(srcs) != 1:
            return dict(kind="bool", local=l, true=tb if not neg else fb, false=fb if not neg else tb)
        kind, data, pt = srcs[0]
        if pt is not None:
            at = pt
        if kind == "copy":
            l = data
            continue
        if kind == "other" or kind == "assign":
            pass
        if kind == "call":
            c = data
            T, F = (tb, fb) if not neg else (fb, tb)
            pc = is_ptr_cmp(c)
            if pc:
                x, y = ref_target(body, c.args[0]), ref_target(body, c.args[1])
                if pc == "ne":
                    T, F = F, T
                # `p == Shared::null()` is `p.is_null()`
                def is_null_const(l):
                    if l is None:
                        return False
                    rs, _ = fl.roots(l)
                    return bool(rs) and all(r[0] == "call" and body.call_at(r[1]) is not None and body.call_at(r[1]).is_("reclaim::Shared::null")
                                            for r in rs)
                if is_null_const(y) and not is_null_const(x):
                    return dict(kind="is_null", arg=x, true=T, false=F, call=c)
                if is_null_const(x) and not is_null_const(y):
                    return dict(kind="is_null", arg=y, true=T, false=F, call=c)
                return dict(kind="ptr_eq", a=x, b=y, true=T, false=F, call=c)
            if c.is_("reclaim::Shared::is_null"):
                return dict(kind="is_null", arg=ref_target(body, c.args[0]), true=T, false=F, call=c)
            if c.is_("option::Option::is_none"):
                return dict(kind="is_none", arg=ref_target(body, c.args[0]), true=T, false=F, call=c)
            if c.is_("option::Option::is_some"):
                return dict(kind="is_none", arg=ref_target(body, c.args[0]), true=F, false=T, call=c)
            if c.is_("result::Result::is_ok"):
                return dict(kind="is_ok", arg=ref_target(body, c.args[0]), true=T, false=F, call=c)
            if c.is_("result::Result::is_err"):
                return dict(kind="is_ok", arg=ref_target(body, c.args[0]), true=F, false=T, call=c)
            return dict(kind="call", call=c, true=T, false=F)
        # unary not
        for p2, k2, d2 in body.defs.get(l, []):
            if pt is not None and p2 != pt:
                continue
            if k2 == "assign" and "un" in d2["rv"] and d2["rv"]["un"] == "Not":
                nl = op_local(d2["rv"]["a"])
                if nl is not None:
                    l = nl
                    neg = not neg
                    break
        else:
            T, F = (tb, fb) if not neg else (fb, tb)
            if kind == "assign" or kind == "other":
                pass
            # comparison rvalue
            for p2, k2, d2 in body.defs.get(l, []):
                if pt is not None and p2 != pt:
                    continue
                if k2 == "assign" and "bin" in d2["rv"]:
                    return dict(kind="cmp", op=d2["rv"]["bin"], a=d2["rv"]["a"], b=d2["rv"]["b"], true=T, false=F, point=p2)
            return dict(kind="bool", local=l, true=T, false=F)
        continue


def ref_target(body, op):
    """for an operand that is `&x` (possibly through temporaries): the local x; else the operand's own local"""
    l = op_local(op)
    if l is None:
        return op_root(op)
    fl = flow(body)
    seen = set()
    while l not in seen:
        seen.add(l)
        srcs = fl.sources(l)
        if len(srcs) != 1:
            return l
        kind, data, pt = srcs[0]
        if kind == "ref" and not [e for e in data["proj"] if e != "deref"]:
            # &x or &(*x): x is what is pointed at
            if not data["proj"]:
                return data["local"]
            l = data["local"]
            continue
        if kind == "copy" and body.ty(l)["refs"] > 0:
            l = data
            continue
        return l
    return l


# ------------------------------------------------------------------------------------------
# dominators (block level) -- used for ordering queries


def dominators(body, unwind=True):
    key = "_dom%d" % int(unwind)
    d = getattr(body, key, None)
    if d is not None:
        return d
    n = len(body.blocks)
    preds = body.preds(unwind)
    # reverse postorder
    order = []
    seen = set()
    stack = [(0, iter(body.succ(0, unwind)))]
    seen.add(0)
    while stack:
        b, it = stack[-1]
        for s in it:
            if s not in seen:
                seen.add(s)
                stack.append((s, iter(body.succ(s, unwind))))
                break
        else:
            order.append(b)
            stack.pop()
    rpo = list(reversed(order))
    idx = {b: i for i, b in enumerate(rpo)}
    idom = {0: 0}
    changed = True
    while changed:
        changed = False
        for b in rpo[1:]:
            ps = [p for p in preds.get(b, []) if p in idom]
            if not ps:
                continue
            new = ps[0]
            for p in ps[1:]:
                a, c = p, new
                while a != c:
                    while idx[a] > idx[c]:
                        a = idom[a]
                    while idx[c] > idx[a]:
                        c = idom[c]
                new = a
            if idom.get(b) != new:
                idom[b] = new
                changed = True
    setattr(body, key, idom)
    return idom


def dominates(body, a, b, unwind=True):
    """point a dominates point b"""
    if a[0] == b[0]:
        return a[1] <= b[1]
    idom = dominators(body, unwind)
    x = b[0]
    if x not in idom:
        return False
    while x != 0:
        x = idom[x]
        if x == a[0]:
            return True
    return a[0] == 0


def back_edges(body, unwind=False):
    """(from, to) edges where `to` dominates `from` (natural loops)"""
    out = []
    idom = dominators(body, unwind)
    for b in range(len(body.blocks)):
        if b not in idom:
            continue
        for s in body.succ(b, unwind):
            if s in idom and dominates(body, Point(s, 0), Point(b, 0), unwind):
                out.append((b, s))
    return out


def loop_blocks(body, back_edge, unwind=False):
    """natural loop of a back edge (tail -> head)"""
    tail, head = back_edge
    preds = body.preds(unwind)
    loop = {head, tail}
    stack = [tail]
    while stack:
        b = stack.pop()
        if b == head:
            continue
        for p in preds.get(b, []):
            if p not in loop:
                loop.add(p)
                stack.append(p)
    return loop
