"""The writer protocol of the map: lock the bin head, re-validate that it is still the head, only then mutate.
Shared by C01 (L1/L2), C08 (A*), C13 (N*), C18 (U*), C11 (D*)."""
from .analysis import flow, regions, cond_of, dominated_by_edge, reach, Point, after
from .anchors import anchors, callee_str, is_shared_write, is_link_load, receiver_field, is_reclaim_atomic
from .facts import op_root, strip_generics


def user_closure_call(c, _depth=0):
    """call of a caller-supplied closure: FnOnce/FnMut/Fn method on a type parameter"""
    cal = c.callee
    if not cal:
        return False
    if cal["kind"] == "param_trait_method":
        return cal.get("trait") in ("std::ops::FnOnce", "std::ops::FnMut", "std::ops::Fn")
    # a nested closure of the calling function that only wraps the caller-supplied one (`helper(|| user(k, v))`, devirtualised when the
    # helper was inlined): calling it is running the user's closure
    if _depth < 3 and cal.get("kind") == "local":
        body = c.body
        tb = body.facts.by_id.get(c.resolved) if body is not None else None
        if tb is not None and tb.kind == "Closure" and tb.id.startswith(body.id.split("::{closure")[0] + "::{closure"):
            return any(user_closure_call(x, _depth + 1) for x in tb.calls if not tb.is_cleanup(x.b))
    return False


def user_code_call(c):
    cal = c.callee
    return bool(cal) and cal["kind"] == "param_trait_method"


def mutations(body, an=None):
    """{point: description} of mutating events (shared writes, retires, frees, tree restructuring, user closure calls)"""
    an = an or anchors(body.facts)
    out = {}
    for c in body.calls:
        if body.is_cleanup(c.b):
            continue
        s = callee_str(c)
        w = is_shared_write(c)
        if w:
            f = receiver_field(body, c, 0)
            if w[0] == "std" and f and all(x[1] in ("count", "size_ctl", "transfer_index", "lock_state") for x in f):
                continue  # bookkeeping atomics are not bin contents
            out[c.point] = "%s %s" % (w[1], "/".join(sorted(x[1] for x in f)) or "slot")
        elif an.is_retire(c) is not None:
            out[c.point] = "retire"
        elif an.is_free(c) is not None:
            out[c.point] = "free"
        elif s.endswith("TreeBin::remove_tree_node") or s.endswith("TreeBin::find_or_put_tree_val"):
            out[c.point] = s.rsplit("::", 1)[-1]
        elif user_closure_call(c):
            out[c.point] = "user closure"
    return out


class Validated:
    """one bin-lock region together with its head re-validation"""

    def __init__(self, body, region):
        self.body = body
        self.region = region
        self.bin_calls = []     # Table::bin calls the locked node was reached from
        self.bin_locals = set()
        self.switch = None      # block of the validating switch
        self.eq = None
        self.ne = None
        self.why = ""
        self._find()

    def _find(self):
        b = self.body
        fl = flow(b)
        r = self.region
        recv = r.recv_local()
        if recv is None:
            self.why = "lock receiver is not a local reference"
            return
        roots, locs = fl.roots(recv)
        for x in roots:
            if x[0] == "call":
                c = b.call_at(x[1])
                if is_link_load(c) == "bin":
                    self.bin_calls.append(c)
                    self.bin_locals |= fl.copies_of(c.dst_local())
        if not self.bin_calls:
            self.why = "locked node was not loaded with Table::bin in this body"
            return
        for blk in sorted({p[0] for p in r.points}):
            cd = cond_of(b, blk)
            if not cd or cd["kind"] != "ptr_eq":
                continue
            for mine, other in ((cd["a"], cd["b"]), (cd["b"], cd["a"])):
                if mine not in self.bin_locals or other is None:
                    continue
                oroots, _ = fl.roots(other)
                ocalls = [b.call_at(x[1]) for x in oroots if x[0] == "call"]
                for oc in ocalls:
                    if is_link_load(oc) != "bin" or oc.point not in r.points:
                        continue
                    # same table, same index as the original load
                    for c0 in self.bin_calls:
                        t0, t1 = op_root(c0.args[0]), op_root(oc.args[0])
                        i0, i1 = op_root(c0.args[1]), op_root(oc.args[1])
                        same_t = t0 is not None and t1 is not None and bool(fl.closure_locals(t0) & fl.closure_locals(t1))
                        same_i = i0 is not None and i1 is not None and bool(fl.copies_of(i0) & fl.copies_of(i1))
                        if same_t and same_i:
                            self.switch, self.eq, self.ne = blk, cd["true"], cd["false"]
                            return
                        self.why = "re-load uses a different table or index than the original load"
        if self.switch is None and not self.why:
            self.why = "no comparison of the locked head with a fresh Table::bin load inside the lock region"

    def dominated_by_validation(self, pt):
        return self.switch is not None and dominated_by_edge(self.body, pt, [(self.switch, self.eq)])


def validated_regions(body):
    v = getattr(body, "_validated", None)
    if v is None:
        v = [Validated(body, r) for r in regions(body)]
        body._validated = v
    return v


def bin_lock_region(r):
    return bool(r.receiver_fields() & {("node::Node", "lock"), ("node::TreeBin", "lock")})
