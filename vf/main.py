"""vf -- static checks for jonhoo/flurry.   python3 -m vf.main check C09 [--tier quick|thorough]"""
import argparse
import importlib
import os
import shutil
import sys
import threading
import traceback

from . import extract as X
from .core import Ctx, Inconclusive
from .facts import Facts, AnchorError

PROPS = ["C01", "C03", "C04", "C05", "C07", "C08", "C09", "C10", "C11", "C12", "C13", "C14", "C15", "C16", "C17", "C18", "C19"]

TRUSTED = [
    "rustc 1.97.0-nightly: MIR construction, Instance::try_resolve, effective visibilities",
    "seize 0.3.3 behaves as documented (protect is SeqCst under a real guard; defer_retire defers; unprotected reclaims at once)",
    "parking_lot MutexGuard unlocks on drop",
    "/verif/driver fact extractor and /verif/vf rule engine (validated by canaries and mutants, DESIGN §6)",
]


def configs_for(mod, tier):
    cfgs = getattr(mod, "CONFIGS", None)
    if cfgs:
        return cfgs[tier] if isinstance(cfgs, dict) else cfgs
    if tier == "thorough":
        return [("serde", "rayon"), ()]
    return [("serde", "rayon")]


def run_check(prop, tier, repo=None, quiet=False):
    seed = int(os.environ.get("VERIF_SEED", "0") or 0)
    ctx = Ctx(prop, tier, seed)
    ctx.trusted = list(TRUSTED)
    repo = repo or X.REPO
    mod = importlib.import_module("vf.rules_%s" % prop.lower())
    work = X.workdir()
    try:
        cfgs = configs_for(mod, tier)
        results = {}
        errs = {}

        def do(cfg):
            try:
                results[cfg] = X.extract(repo, list(cfg), work, tag="facts-" + ("_".join(cfg) or "default"),
                                         keep_target=getattr(mod, "NEEDS_DEPS", False))
            except Exception as e:  # noqa
                errs[cfg] = e
        ths = [threading.Thread(target=do, args=(c,)) for c in cfgs]
        for t in ths:
            t.start()
        for t in ths:
            t.join()
        if errs:
            cfg, e = next(iter(errs.items()))
            ctx.fail_closed("fact extraction failed (%s): %s" % (",".join(cfg), str(e)[-1500:].replace("\n", " | ")))
        for cfg in cfgs:
            if cfg not in results:
                continue
            fpath, deps = results[cfg]
            facts = Facts(fpath)
            ctx.config = ",".join(cfg) or "default"
            ctx.facts = facts
            ctx.stats["configs"].append(ctx.config)
            ctx.stats["functions_analysed"] += len(facts.bodies)
            ctx.stats["call_sites"] += facts.n_calls()
            try:
                if getattr(mod, "NEEDS_DEPS", False):
                    mod.run(ctx, facts, deps=deps, work=work, repo=repo)
                else:
                    mod.run(ctx, facts)
            except AnchorError as e:
                ctx.fail_closed("anchor not resolved: %s" % e)
            except Inconclusive as e:
                ctx.fail_closed(str(e))
        if tier == "thorough" and not os.environ.get("VF_NO_SELFTEST"):
            # checker self-validation (DESIGN §6): the property's seeded mutants against scratch copies of the tree under test.
            # Results are evidence about the checker; they never become a VIOLATION of the tree under test.
            try:
                from .selftest import selftest
                import io
                import contextlib
                buf = io.StringIO()
                with contextlib.redirect_stdout(buf):
                    res = selftest(repo, None, [prop], 8, neg_sample=72, seed=seed)
                ctx.extra["mutant_selftest"] = dict(
                    total=len(res),
                    caught=[r["name"] for r in res if r["status"] == "caught"],
                    silent_on_behaviour_preserving=[r["name"] for r in res if r["status"] == "ok"],
                    missed=[r["name"] for r in res if r["status"] == "MISSED"],
                    false_alarms=[r["name"] for r in res if r["status"] == "FALSE-ALARM"],
                    skipped=[(r["name"], r.get("status")) for r in res if r["status"] in ("skipped", "does-not-compile")],
                )
                from .selftest import cross_negatives
                with contextlib.redirect_stdout(buf):
                    xbad = cross_negatives(repo, 8, only_props=[prop], exclude_own=True, sample=72, seed=seed)
                ctx.extra["mutant_selftest"]["other_properties_behaviour_preserving_mutants"] = dict(
                    runs=getattr(cross_negatives, "last_runs", None), of_total=getattr(cross_negatives, "last_total", None),
                    note="a window of 72 behaviour-preserving mutants, rotating with VERIF_SEED; the whole matrix: ./vf.sh selftest --cross-negatives",
                    not_silent=[r["name"] for r in xbad])
                print("selftest: %d mutants of %s: %d caught, %d silent-as-expected, %d missed, %d false alarms, %d skipped" % (
                    len(res), prop, len(ctx.extra["mutant_selftest"]["caught"]), len(ctx.extra["mutant_selftest"]["silent_on_behaviour_preserving"]),
                    len(ctx.extra["mutant_selftest"]["missed"]), len(ctx.extra["mutant_selftest"]["false_alarms"]), len(ctx.extra["mutant_selftest"]["skipped"])))
            except Exception as e:  # noqa
                ctx.note("mutant selftest failed to run: %s" % e)
        if tier == "thorough" and hasattr(mod, "thorough"):
            try:
                mod.thorough(ctx, work=work, repo=repo)
            except Exception as e:  # noqa
                ctx.note("thorough extras failed: %s" % e)
        cmd = "cd /verif && ./vf.sh check %s --tier %s" % (prop, tier)
        return ctx.finish(getattr(mod, "LEVEL", "other"), mod.EXPLANATION, cmd)
    except Exception:
        traceback.print_exc()
        print("INCONCLUSIVE property=%s internal error in the checker (no verdict)" % prop)
        return 3
    finally:
        shutil.rmtree(work, ignore_errors=True)


def main(argv=None):
    ap = argparse.ArgumentParser(prog="vf")
    sub = ap.add_subparsers(dest="cmd")
    c = sub.add_parser("check")
    c.add_argument("prop")
    c.add_argument("--tier", default=os.environ.get("VERIF_TIER", "quick"), choices=["quick", "thorough"])
    c.add_argument("--repo", default=None)
    d = sub.add_parser("dump")
    d.add_argument("pattern")
    d.add_argument("--features", default="serde,rayon")
    d.add_argument("--repo", default=None)
    a = sub.add_parser("all")
    a.add_argument("--tier", default="quick")
    a.add_argument("--repo", default=None)
    ex = sub.add_parser("explain")
    ex.add_argument("path")
    ex.add_argument("--repo", default=None)
    st = sub.add_parser("selftest")
    st.add_argument("--only", default=None)
    st.add_argument("--prop", action="append")
    st.add_argument("--repo", default=None)
    st.add_argument("--jobs", type=int, default=8)
    st.add_argument("--cross-negatives", action="store_true")
    args = ap.parse_args(argv)
    if args.cmd == "selftest":
        from .selftest import selftest, cross_negatives
        if args.cross_negatives:
            return 1 if cross_negatives(args.repo, args.jobs) else 0
        res = selftest(args.repo, args.only, args.prop, args.jobs)
        return 1 if any(r["status"] in ("MISSED", "FALSE-ALARM") for r in res) else 0
    if args.cmd == "explain":
        import json
        d = json.load(open(args.path))
        print("property %s  rule %s  -- %s" % (d.get("property"), d.get("rule"), d.get("rule_text", "")))
        print("construct: %s  [%s]  at %s" % (d.get("function"), d.get("what"), d.get("loc")))
        print("reported:  %s" % d.get("detail"))
        if d.get("path"):
            print("path:      %s" % d.get("path"))
        print("re-evaluating on the current tree ...")
        os.environ["VF_EVIDENCE_DIR"] = os.path.join(X.workdir(), "evidence")
        rc = run_check(d["property"], "quick", args.repo)
        import glob as _g
        still = [f for f in _g.glob(os.path.join(os.environ["VF_EVIDENCE_DIR"], "replay", "*.json")) if json.load(open(f)).get("key") == d.get("key")]
        print("=> the violation %s on the current tree" % ("is STILL reported" if still else "is no longer reported"))
        shutil.rmtree(os.path.dirname(os.environ["VF_EVIDENCE_DIR"]), ignore_errors=True)
        return 1 if still else 0
    if args.cmd == "check":
        return run_check(args.prop, args.tier, args.repo)
    if args.cmd == "all":
        rc = 0
        for p in PROPS:
            try:
                importlib.import_module("vf.rules_%s" % p.lower())
            except ImportError:
                continue
            r = run_check(p, args.tier, args.repo)
            print("== %s exit %d" % (p, r))
            rc = max(rc, r)
        return rc
    if args.cmd == "dump":
        work = X.workdir()
        try:
            fp, _ = X.extract(args.repo or X.REPO, [f for f in args.features.split(",") if f], work)
            f = Facts(fp)
            for b in f.find(args.pattern):
                print(b.dump())
        finally:
            shutil.rmtree(work, ignore_errors=True)
        return 0
    ap.print_help()
    return 2


if __name__ == "__main__":
    sys.exit(main())
