"""Run the fact extractor (driver) over a source tree.  Always a fresh target dir; nothing cached."""
import os
import shutil
import subprocess
import tempfile

VERIF = os.path.dirname(os.path.dirname(os.path.abspath(__file__)))
DRIVER = os.path.join(VERIF, "driver", "target", "release", "vf-driver")
REPO = os.environ.get("VF_REPO", "/repo")


class ExtractError(Exception):
    pass


def sysroot():
    return subprocess.check_output(["rustc", "+nightly", "--print", "sysroot"], text=True).strip()


_SYSROOT = None


def nightly_env(extra=None):
    global _SYSROOT
    if _SYSROOT is None:
        _SYSROOT = sysroot()
    env = dict(os.environ)
    env["LD_LIBRARY_PATH"] = os.path.join(_SYSROOT, "lib") + (":" + env["LD_LIBRARY_PATH"] if env.get("LD_LIBRARY_PATH") else "")
    env["CARGO_NET_OFFLINE"] = "true"
    env.pop("RUSTC_WRAPPER", None)
    if extra:
        env.update(extra)
    return env


def workdir():
    """scratch root outside /repo and /verif; removed by the caller"""
    base = os.environ.get("VF_TMP") or tempfile.gettempdir()
    return tempfile.mkdtemp(prefix="vf-", dir=base)


def extract(tree, features, work, tag="facts", keep_target=False):
    """returns (facts_path, deps_dir or None).  `work` is a scratch directory owned by the caller."""
    if not os.path.exists(DRIVER):
        raise ExtractError("driver not built: run MANIFEST setup_cmd (%s missing)" % DRIVER)
    out = os.path.join(work, tag + ".json")
    target = os.path.join(work, tag + "-target")
    env = nightly_env({
        "RUSTFLAGS": "-Zmir-opt-level=0 --cap-lints allow",
        "RUSTC_WORKSPACE_WRAPPER": DRIVER,
        "VF_OUT": out,
        "VF_CRATE": "flurry",
        "CARGO_TARGET_DIR": target,
    })
    cmd = ["cargo", "+nightly", "check", "--offline", "--lib", "--manifest-path", os.path.join(tree, "Cargo.toml")]
    if features:
        cmd += ["--features", ",".join(features)]
    p = subprocess.run(cmd, env=env, stdout=subprocess.PIPE, stderr=subprocess.STDOUT, text=True)
    if p.returncode != 0 or not os.path.exists(out):
        if not keep_target:
            shutil.rmtree(target, ignore_errors=True)
        raise ExtractError("fact extraction failed for %s (features=%s):\n%s" % (tree, features, p.stdout[-4000:]))
    deps = os.path.join(target, "debug", "deps")
    if not keep_target:
        shutil.rmtree(target, ignore_errors=True)
        deps = None
    return out, deps


def copy_tree(src, dst):
    """scratch copy of the source tree without build output or VCS data"""
    def ign(d, names):
        return [n for n in names if n in ("target", ".git", "jsr166") and os.path.abspath(d) == os.path.abspath(src)]
    shutil.copytree(src, dst, ignore=ign, symlinks=True)
