#!/bin/sh
# entry point: ./vf.sh check <Cxx> [--tier quick|thorough] | ./vf.sh all | ./vf.sh dump <fn pattern> | ./vf.sh selftest
cd "$(dirname "$0")" || exit 3
export CARGO_NET_OFFLINE=true
exec python3 -B -m vf.main "$@"
